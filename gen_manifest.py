#!/usr/bin/env python3
"""Regenerates MANIFEST.json from the table below (kept in one place so it stays valid)."""
import json, subprocess
HOOK_COMMITS = ["d2e1ca6", "e0228ff"]
BASELINE_OFF = "cd /repo && (cargo nextest run --workspace --no-fail-fast --tool-config-file pb:/w/lib/nextest.toml --profile pb --test-threads 8 --offline || cargo test --workspace --no-fail-fast --offline)"
CHECKS = {}
def add(pid, level, text, note, technique, design_ref, engine="gmc"):
    CHECKS[pid] = dict(property_id=pid, quick_cmd=f"./check {pid} quick", thorough_cmd=f"./check {pid} thorough",
        evidence_file=f"/verif/evidence/{pid}.json", replay_cmd_template="./check replay {path}", engine=engine,
        level_claimed=dict(category=level, text=text, design_ref=design_ref), level_note=note, technique=technique)

TB = "Trusted: the harness (reference BTreeMap model, oracles, hashers), the read-only verif-hooks dump used for exact state de-duplication, rustc, and 128-bit state hashing. Bounds are those written into the evidence file by the run."
add("C01", "model_checking",
    "Explicit-state exploration of the real HashMap: every history with <=d deviations spliced anywhere into the growth path (E1) and every history of any length over a tiny key universe to a fixpoint (E2), each step compared with a BTreeMap reference; exact physical-state de-duplication.",
    TB, "bounded exhaustive exploration of the implementation (deviation-bounded BFS + small-universe fixpoint) against a reference model", "DESIGN.md section 5 C01, engines E1/E2")

import os
claimed = sorted(CHECKS)
ALL = [f"C{i:02d}" for i in range(1, 18)]
NA = json.load(open("/verif/not_applicable.json")) if os.path.exists("/verif/not_applicable.json") else {}
m = dict(version=1,
    setup_cmd="./check setup",
    hooks=dict(guard="cargo feature verif-hooks (off by default)", enable="the harness crates depend on griddle with features=[\"verif-hooks\"] via path=/repo; no RUSTFLAGS needed",
        baseline_off_cmd=BASELINE_OFF, source_commits=HOOK_COMMITS, add_only=True),
    engines=[dict(name="gmc", path="/verif/mc", serves_properties=claimed, kind_free_text="hand-rolled explicit-state / stateless explorers over the real crate (E1 deviation-bounded growth path, E2 small-universe fixpoint, E3 pair worlds, E4 fault enumeration, E6 profile differential, E7 scale sweep); workers are isolated subprocesses")],
    checks=[CHECKS[k] for k in claimed],
    not_applicable=[dict(property_id=p, reason=NA.get(p, "check not built yet (work in progress; see DESIGN.md section 5)")) for p in ALL if p not in CHECKS],
    notes="Exit codes: 0 held / 1 violation / 2 machinery failure. Known findings: /verif/known_findings.json. Replays: /verif/replays/<id>-<n>.json.")
json.dump(m, open("/verif/MANIFEST.json", "w"), indent=1)
print("claimed:", claimed)
