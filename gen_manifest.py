#!/usr/bin/env python3
"""Regenerates MANIFEST.json from the table below (kept in one place so it stays valid)."""
import json, subprocess
HOOK_COMMITS = ["d2e1ca6", "e0228ff"]
BASELINE_OFF = "cd /repo && (cargo nextest run --workspace --no-fail-fast --tool-config-file pb:/w/lib/nextest.toml --profile pb --test-threads 8 --offline || cargo test --workspace --no-fail-fast --offline)"
CHECKS = {}
def add(pid, level, text, note, technique, design_ref, engine="gmc"):
    CHECKS[pid] = dict(property_id=pid, quick_cmd=f"./check {pid} quick", thorough_cmd=f"./check {pid} thorough",
        evidence_file=f"/verif/evidence/{pid}.json", replay_cmd_template="./check replay {path}", engine=engine,
        level_claimed=dict(category=level, text=text, design_ref=design_ref), level_note=note, technique=technique)

TB = "Trusted: the harness (reference BTreeMap model, oracles, hashers), the read-only verif-hooks dump used for exact state de-duplication, rustc, and 128-bit state hashing. Bounds are those written into the evidence file by the run."
add("C01", "model_checking",
    "Explicit-state exploration of the real HashMap: every history with <=d deviations spliced anywhere into the growth path (E1) and every history of any length over a tiny key universe to a fixpoint (E2), each step compared with a BTreeMap reference; exact physical-state de-duplication.",
    TB, "bounded exhaustive exploration of the implementation (deviation-bounded BFS + small-universe fixpoint) against a reference model", "DESIGN.md section 5 C01, engines E1/E2")

E12 = "bounded exhaustive exploration of the implementation (deviation-bounded BFS over the growth path + small-universe fixpoint, exact state de-duplication)"
add("C02", "model_checking",
    "Every subject call in every explored transition runs under a per-call monitor (hash computations via a counting BuildHasher, table allocations via a counting global allocator, elements moved via the O(1) stats hook) and is checked against the bounds of the statement; plus a scale sweep with the same monitors on every call up to 2*10^5 (quick) / 3*10^6 (thorough) elements with tombstone patterns.",
    TB + " A chain of several entry calls is bounded per inserting call.", E12 + " with per-call work monitors; exhaustive-in-n scale sweep", "DESIGN.md section 5 C02, engines E1/E2/E7")
add("C03", "model_checking",
    "Per-call progress oracle on every explored transition (a key-adding call on a split map leaves exactly rem-min(R,rem) elements in the old table, the old table is freed when emptied - lazily only where the statement allows), a countdown of ceil(L/R) key-adding calls per resize, and the allocator's count of live tables (<=2, <=1 when no resize is pending); same monitors in the scale sweep.",
    TB, E12 + " with resize-progress monitors; scale sweep", "DESIGN.md section 5 C03")
add("C04", "model_checking",
    "At every explored state capacity()>=len(); the head-room probe (insert capacity()-len() unseen keys: no panic, no table allocation, capacity never decreases, no resize pending afterwards) is an op of the alphabet applied at every state, after boundary-argument reserve/shrink_to/clone calls issued in every phase.",
    TB, E12 + " with a head-room probe at every state", "DESIGN.md section 5 C04")
add("C05", "model_checking",
    "The C01/C09/C12 alphabets on heap-owning drop-ledgered elements and zero-sized elements, executed by an AddressSanitizer build (optimised, assertions off) and by a build with hashbrown's debug assertions on; after every call the cached move cursor is compared with the old table's contents through the hook; canaries on every element touched.",
    TB + " UB that neither ASan, the canaries, the ledger, the cursor check nor hashbrown's assertions flag is out of reach.", E12 + " under AddressSanitizer and debug assertions, cursor-agreement invariant on every state; plus exhaustive enumeration of panicking element destructors (every drop the collection performs in every call over a family of reachable states) and of consumer panics inside fold at every position", "DESIGN.md section 5 C05")
add("C06", "model_checking",
    "Drop ledger over unique object ids for keys and values: every explored history is closed by dropping the world; a second drop, a stored object that is not live, an object stored twice, or anything (element or table allocation) still live afterwards is a violation; iterators are dropped / forgotten at every consumption prefix.",
    TB, E12 + " with a drop ledger and allocation liveness", "DESIGN.md section 5 C06")
add("C08", "model_checking",
    "At every explored state each iterator kind is walked with len()/size_hint() checked before every next(), fusedness, clone-at-every-position independence, keys/values order agreement; drain/into_iter consumed, dropped or forgotten at every prefix, followed by the growth path.",
    TB, E12 + " with iterator oracles at every state and every consumption prefix", "DESIGN.md section 5 C08")
add("C09", "model_checking",
    "retain / drain_filter with every predicate of a structured family (none, all, old-table-only, new-table-only, parities, single keys, all 2^k subsets of the location-class representatives, with and without value mutation) at every explored state; predicate call log, kept / yielded sets, early drop and forget at every prefix; then the trajectory continues.",
    TB, E12 + " over states x predicates x early-drop points", "DESIGN.md section 5 C09")
add("C10", "model_checking",
    "Every reserve/try_reserve argument in [0,2cap+4], every shrink_to argument in [0,cap+2], windows around usize::MAX and isize::MAX, with_capacity for all n<=1100 and 2^k+-1, at every explored state, in the chk and rel binaries; oracle is the statement (capacity lower bounds, no allocation while filling, Err => unchanged, overflow => Err/panic, never a normal return having reserved nothing).",
    TB + " Requests between 2^40 and the layout limit really ask the OS for memory: exercised with try_reserve only.", E12 + " over capacity arguments incl. integer-limit windows, two build profiles; allocation failure injected as an environment deviation for try_reserve; scale sweeps with boundary arguments at every resize", "DESIGN.md section 5 C10")
add("C12", "model_checking",
    "Every type-correct method chain of length <=3 over Entry/OccupiedEntry/VacantEntry/RawEntryMut/RawOccupiedEntryMut/RawVacantEntryMut handles, on every key location class, at every explored state including the insertions that trigger growth; every accessor is compared with the reference element and writes through returned references are read back.",
    TB + " Chains that call replace_entry/replace_key on a handle descending from Entry::insert are not generated (hashbrown documents that panic).", E12 + " over a typed grammar of handle method chains", "DESIGN.md section 5 C12")

E3 = "bounded exhaustive exploration of the implementation: every ordered pair of a family of reachable states (growth path + states after one shaping deviation), crossed with hasher seeds and key-overlap patterns"
add("C11", "model_checking",
    "Pair worlds: clone() and clone_from() for every ordered (source, destination) pair of the state family, hasher seed pairs (1,1),(1,2),(2,1); contents, == both ways, source's physical dump unchanged, hasher adopted, no old table kept, no shared element objects; then each of 12 divergent calls on either map (depth 2 in the thorough tier) with the other map's dump required unchanged.",
    TB, E3, "DESIGN.md section 5 C11, engine E3")
add("C13", "model_checking",
    "Set histories explored like the map's (E1/E2 against a BTreeSet-like reference, object identity of the stored element tracked for replace/get_or_insert*), plus every ordered pair of set states for union/intersection/difference/symmetric_difference, | & ^ -, is_subset/is_superset/is_disjoint and ==, with duplicate-freedom of every lazy iterator.",
    TB, E12 + "; " + E3, "DESIGN.md section 5 C13")
add("C14", "model_checking",
    "For every target content set 0..n the cross product of history shapes (insertion order, initial capacity, tombstones, reserve/shrink_to_fit spliced in, hasher kind and seed) is built, one member kept per physical layout; all ordered pairs compared through ==, len, get/contains of every key, sorted iter/keys/values/Debug; explicit triples for transitivity; single-element mutations must compare unequal both ways.",
    TB, "exhaustive enumeration of a finite family of histories per content set; all pairs / triples compared on the implementation", "DESIGN.md section 5 C14")
add("C16", "model_checking",
    "At every family state (maps and sets; u32, heap-owning and zero-sized elements) serde_test's token round trip (exact length, iteration order, each element once, deserialize and deserialize_in_place compared with ==) and serde's value deserializers with size hints {exact, none, 0, 10^9}; HashSet::deserialize_in_place for every ordered (source, destination) pair of set states.",
    TB + " serde_test and serde::de::value are trusted as token recorder / source.", E3 + " (serde round trip per state, in-place per pair)", "DESIGN.md section 5 C16")
add("C17", "model_checking",
    "The exploration spaces of C01 (E1/E2, entry chains) and C10 (capacity arguments incl. usize/isize windows) are executed by two binaries that differ exactly in debug-assertions and overflow-checks; per-execution outcome digests (returned values, panics, len, capacity, sorted contents) are compared chunk by chunk and the first differing history is reported; an AddressSanitizer build runs the E2 and chain spaces.",
    TB, "bounded exhaustive exploration of the implementation under two build profiles with transcript comparison", "DESIGN.md section 5 C17, engine E6")

add("C07", "fault_enumeration",
    "For every state of the family and every op of the alphabet the invocations of each user callback kind (Hash, Eq, Clone of key/value/hasher, closures) are counted in a fault-free run, then a panic is injected at each individual invocation; after the caught panic: len()==iterated entries, every element live (canary+ledger), found by get, value legitimate, no duplicates, no double drop, losses within the documented allowance, move cursor agrees with the old table; then a tour of calls and the growth path across the next resize under full audits. Run by the chk and the AddressSanitizer binaries.",
    TB + " Leaks after a panic are not judged (the statement does not promise their absence).", "exhaustive fault enumeration: all crash points of all user callbacks of all ops over a family of reachable states, on the implementation", "DESIGN.md section 5 C07, engine E4")

add("C15", "model_checking",
    "griddle's and hashbrown's rayon modules run unmodified against a stand-in rayon crate whose bridge takes every split and fork-order decision from a script; all scripts with at most k splits are enumerated depth-first (stateless search) for every parallel map call at every family state and every parallel set call on every pair of set states; results are compared with the sequential API (each element exactly once, writes land exactly once, predicates agree). The same bodies are then run on the real rayon with pools of 1..16 threads as conformance evidence.",
    TB + " The stand-in implements rayon's plumbing contract (Consumer/Folder/Reducer/UnindexedProducer, full()); real rayon may split less than the contract allows, never otherwise. Leaf folds over disjoint sub-ranges are assumed to commute (their disjointness is what is checked).", "stateless exhaustive exploration of split schedules (controlled scheduler stand-in for rayon) on the implementation", "DESIGN.md section 5 C15, engine E5", engine="gmc-par")

import os
claimed = sorted(CHECKS)
ALL = [f"C{i:02d}" for i in range(1, 18)]
NA = json.load(open("/verif/not_applicable.json")) if os.path.exists("/verif/not_applicable.json") else {}
m = dict(version=1,
    setup_cmd="./check setup",
    hooks=dict(guard="cargo feature verif-hooks (off by default)", enable="the harness crates depend on griddle with features=[\"verif-hooks\"] via path=/repo; no RUSTFLAGS needed",
        baseline_off_cmd=BASELINE_OFF, source_commits=HOOK_COMMITS, add_only=True),
    engines=[dict(name="gmc-par", path="/verif/mc-par", serves_properties=["C15"], kind_free_text="E5: depth-first enumeration of rayon split/fork scripts through the stand-in crate /verif/rayon-shim; /verif/mc-par-real links the real rayon for conformance runs"),
        dict(name="gmc", path="/verif/mc", serves_properties=[c for c in claimed if c != "C15"], kind_free_text="hand-rolled explicit-state / stateless explorers over the real crate (E1 deviation-bounded growth path, E2 small-universe fixpoint, E3 pair worlds, E4 fault enumeration, E6 profile differential, E7 scale sweep); workers are isolated subprocesses")],
    checks=[CHECKS[k] for k in claimed],
    not_applicable=[dict(property_id=p, reason=NA.get(p, "check not built yet (work in progress; see DESIGN.md section 5)")) for p in ALL if p not in CHECKS],
    notes="Exit codes: 0 held / 1 violation / 2 machinery failure. Known findings: /verif/known_findings.json. Replays: /verif/replays/<id>-<n>.json.")
json.dump(m, open("/verif/MANIFEST.json", "w"), indent=1)
print("claimed:", claimed)
