mod harness;
fn main() {
    harness::main();
}
