//! E5 (C15): rayon traversal equals sequential traversal under every schedule.
//!
//! With the `shim` feature this file is linked against /verif/rayon-shim, whose `bridge_unindexed`
//! takes every split / fork-order decision from a script: all scripts with at most k splits are
//! enumerated depth-first.  Without it (crate /verif/mc-par-real) the same bodies run on the real
//! rayon with pools of 1..=16 threads, as conformance evidence (sampled, not the deciding step).

use gmc::elem::{El, Tk};
use gmc::engine::{reset_exec, CurFile, FoundViol, Outcome, World, PROGRESS};
use gmc::mapworld::{Cfg, MapWorld};
use gmc::op::*;
use gmc::pairs::{build_family, rename};
use gmc::setworld::SetWorld;
use gmc::shard::{result_of, ShardSpec};
use gmc::util::{catch, H128};
use rayon::prelude::*;
use std::collections::{BTreeMap, BTreeSet, HashSet};

macro_rules! bail {
    ($($arg:tt)*) => { return Err(Viol::new("mismatch", format!($($arg)*))) }
}

pub const MAP_OPS: [&str; 14] = ["par_iter", "par_keys", "par_values", "par_iter_mut", "par_values_mut", "(&map).into_par_iter", "(&mut map).into_par_iter", "map.into_par_iter", "par_eq", "par_extend", "from_par_iter", "par_extend(&)", "par_extend(lopsided source)", "from_par_iter(lopsided source)"];
pub const SET_OPS: [&str; 14] = ["par_iter", "set.into_par_iter", "par_union", "par_intersection", "par_difference", "par_symmetric_difference", "par_is_subset", "par_is_superset", "par_is_disjoint", "par_eq", "par_extend", "from_par_iter", "par_extend(&)", "par_extend(lopsided source)"];

fn build<W: World>(cfg: &Cfg, h: &[Op]) -> VResult<W> {
    let mut w = W::create(cfg)?;
    for &o in h {
        if let Err(v) = w.apply(o) {
            std::mem::forget(w);
            return Err(v);
        }
    }
    Ok(w)
}

fn sorted<T: Ord>(mut v: Vec<T>) -> Vec<T> {
    v.sort();
    v
}
fn no_dups<T: Ord + std::fmt::Debug>(v: &[T], what: &str) -> VResult<()> {
    for w in v.windows(2) {
        if w[0] == w[1] {
            bail!("{} visits element {:?} more than once", what, w[0]);
        }
    }
    Ok(())
}

/// One parallel map operation checked against the world's reference (= sequential semantics).
fn map_parop<T: El + Send + Sync>(w: &mut MapWorld<T>, op: usize) -> VResult<u64> {
    let want: Vec<(u32, u32)> = w.r.iter().map(|(&k, &v)| (k, v)).collect();
    let seq: Vec<(u32, u32)> = sorted(w.m.iter().map(|(k, v)| (k.id(), v.id())).collect());
    if seq != want {
        bail!("sequential iteration disagrees with the reference before the parallel call");
    }
    let name = MAP_OPS[op];
    let mut h = H128::new();
    h.u64(op as u64);
    match op {
        0 | 5 => {
            let got: Vec<(u32, u32)> = if op == 0 { w.m.par_iter().map(|(k, v)| (k.id(), v.id())).collect() } else { (&w.m).into_par_iter().map(|(k, v)| (k.id(), v.id())).collect() };
            let got = sorted(got);
            no_dups(&got, name)?;
            if got != want {
                bail!("{} visits {:?}, sequential iteration visits {:?}", name, got, want);
            }
        }
        1 => {
            let got: Vec<u32> = sorted(w.m.par_keys().map(|k| k.id()).collect());
            no_dups(&got, name)?;
            if got != want.iter().map(|e| e.0).collect::<Vec<_>>() {
                bail!("{} visits {:?}, keys are {:?}", name, got, want);
            }
        }
        2 => {
            let got: Vec<u32> = sorted(w.m.par_values().map(|v| v.id()).collect());
            if got != sorted(want.iter().map(|e| e.1).collect::<Vec<_>>()) {
                bail!("{} visits {:?}, elements are {:?}", name, got, want);
            }
        }
        3 | 4 | 6 => {
            // every element is written exactly once: +1 mod 3 applied twice would show
            match op {
                3 => w.m.par_iter_mut().for_each(|(_, v)| {
                    let x = v.id();
                    v.set((x + 1) % 3)
                }),
                4 => w.m.par_values_mut().for_each(|v| {
                    let x = v.id();
                    v.set((x + 1) % 3)
                }),
                _ => (&mut w.m).into_par_iter().for_each(|(_, v)| {
                    let x = v.id();
                    v.set((x + 1) % 3)
                }),
            }
            for v in w.r.values_mut() {
                *v = T::norm((*v + 1) % 3);
            }
            w.audit(true)?;
        }
        7 => {
            let (hk, seed) = (w.cfg.hk, w.cfg.seed);
            let m = std::mem::replace(&mut w.m, griddle::HashMap::with_hasher(gmc::hasher::HB::new(hk, seed)));
            let got: Vec<(u32, u32)> = sorted(m.into_par_iter().map(|(k, v)| (k.id(), v.id())).collect());
            no_dups(&got, name)?;
            if got != want {
                bail!("{} yields {:?}, elements are {:?}", name, got, want);
            }
            w.r.clear();
            w.audit(true)?;
        }
        8 => {
            let mut other = w.m.clone();
            if !w.m.par_eq(&other) || !other.par_eq(&w.m) {
                bail!("par_eq is false for equal maps");
            }
            // the same object on both sides
            if w.m.par_eq(&w.m) != (w.m == w.m) {
                bail!("m.par_eq(&m) = {}, m == m is {}", w.m.par_eq(&w.m), w.m == w.m);
            }
            // values that are only PartialEq (a NaN is not equal to itself): par_eq must still agree with ==
            {
                let (hk, seed) = (w.cfg.hk, w.cfg.seed);
                let mut nm: griddle::HashMap<u32, f64, gmc::hasher::HB> = griddle::HashMap::with_hasher(gmc::hasher::HB::new(hk, seed));
                for (i, (&k, &v)) in w.r.iter().enumerate() {
                    nm.insert(k, if i == 0 { f64::NAN } else { v as f64 });
                }
                let nc = nm.clone();
                #[allow(clippy::eq_op)]
                let (seq_self, seq_clone) = (nm == nm, nm == nc);
                if nm.par_eq(&nm) != seq_self || nm.par_eq(&nc) != seq_clone || nc.par_eq(&nm) != seq_clone {
                    bail!("with a NaN value: par_eq(self) = {}, par_eq(clone) = {}; == gives {} / {}", nm.par_eq(&nm), nm.par_eq(&nc), seq_self, seq_clone);
                }
            }
            if let Some((&k, &v)) = w.r.iter().next() {
                other.insert(T::mk(k, true), T::mk((v + 1) % 3, false));
                if T::norm(1) != T::norm(0) && (w.m.par_eq(&other) || other.par_eq(&w.m)) {
                    bail!("par_eq is true for maps that differ in one value");
                }
                other.remove(&T::mk(k, true));
                if w.m.par_eq(&other) || other.par_eq(&w.m) {
                    bail!("par_eq is true for maps that differ in one element");
                }
                other.insert(T::mk(w.next_key + 9, true), T::mk(v, false));
                if !T::ZST && (w.m.par_eq(&other) || other.par_eq(&w.m)) {
                    bail!("par_eq is true for maps that differ in one key");
                }
            }
        }
        9 | 11 | 12 => {
            let n = w.next_key;
            // fresh keys, keys already in the map, and keys that occur several times in the input
            // with different values (the last one must win, whatever the split schedule)
            // (a batch of 20 fresh keys; every fourth state instead a large one of 1100, past any batch-size
            // threshold in the glue - the keys already in the map come again with changed values either way)
            let fresh = if !T::ZST && want.len() % 4 == 1 { 1100 } else { 20 };
            let mut items: Vec<(u32, u32)> = (n..n + fresh).map(|k| (k, 1)).collect();
            items.extend(want.iter().take(if fresh > 20 { usize::MAX } else { 5 }).map(|&(k, v)| (k, (v + 1) % 3)));
            for round in 0..3u32 {
                items.insert((round as usize * 7) % items.len(), (n + 3, round));
                items.push((n + 1, (round + 2) % 3));
                if let Some(&(k, _)) = want.first() {
                    items.insert(items.len() / 2, (k, round));
                }
            }
            let mut seq = w.m.clone();
            seq.extend(items.iter().map(|&(k, v)| (T::mk(k, true), T::mk(v, false))));
            if op == 9 {
                let v: Vec<(T, T)> = items.iter().map(|&(k, v)| (T::mk(k, true), T::mk(v, false))).collect();
                w.m.par_extend(v);
            } else if op == 12 {
                // a source that splits unevenly: padding that a filter drops again sits right behind the
                // first item, so one side of every early split keeps a single element
                let v: Vec<(T, T)> = lopsided(&items).into_iter().map(|(k, v)| (T::mk(k, true), T::mk(v, false))).collect();
                w.m.par_extend(v.into_par_iter().filter(|(k, _)| k.id() != PAD || T::ZST));
            } else if !par_extend_ref(&mut w.m, &items) {
                return Ok(0);
            }
            if w.m != seq || seq != w.m {
                bail!("{} builds a different map than sequential extend", name);
            }
            for &(k, v) in &items {
                w.r.insert(T::norm(k), T::norm(v));
                if k >= w.next_key {
                    w.next_key = k + 1;
                }
            }
            w.audit(true)?;
        }
        _ => {
            gmc::hasher::set_default_hb(w.cfg.hk, w.cfg.seed);
            // the map's own pairs, each key preceded by two stale values: the last occurrence wins
            let mut input: Vec<(u32, u32)> = vec![];
            for &(k, v) in &want {
                input.push((k, (v + 1) % 3));
            }
            for &(k, v) in want.iter().rev() {
                input.push((k, (v + 2) % 3));
            }
            input.extend(want.iter().copied());
            let built: griddle::HashMap<T, T, gmc::hasher::HB> = if op == 13 {
                let v: Vec<(T, T)> = lopsided(&input).into_iter().map(|(k, v)| (T::mk(k, true), T::mk(v, false))).collect();
                v.into_par_iter().filter(|(k, _)| k.id() != PAD || T::ZST).collect()
            } else {
                let v: Vec<(T, T)> = input.iter().map(|&(k, v)| (T::mk(k, true), T::mk(v, false))).collect();
                v.into_par_iter().collect()
            };
            if built != w.m || w.m != built {
                bail!("from_par_iter builds a map different from the sequential collect of the same input (duplicate keys: last value wins)");
            }
            let got = sorted(built.iter().map(|(k, v)| (k.id(), v.id())).collect::<Vec<_>>());
            if got != want {
                bail!("from_par_iter builds {:?}, sequential collect gives {:?}", got, want);
            }
        }
    }
    h.u64(w.r.len() as u64);
    Ok(h.finish64())
}

/// Key id of padding items (dropped again by a filter).
const PAD: u32 = 0x00F0_0000;
/// `items` with as many padding items as real ones inserted right behind the first item.
fn lopsided(items: &[(u32, u32)]) -> Vec<(u32, u32)> {
    let mut v = Vec::with_capacity(items.len() * 2);
    for (i, &it) in items.iter().enumerate() {
        v.push(it);
        if i == 0 {
            v.extend((0..items.len()).map(|_| (PAD, 0)));
        }
    }
    v
}

fn par_extend_ref<T: El>(m: &mut griddle::HashMap<T, T, gmc::hasher::HB>, items: &[(u32, u32)]) -> bool {
    // only Copy element types have `ParallelExtend<(&K, &V)>`
    let any: &mut dyn std::any::Any = m;
    if let Some(m) = any.downcast_mut::<griddle::HashMap<u32, u32, gmc::hasher::HB>>() {
        let v: Vec<(u32, u32)> = items.to_vec();
        let refs: Vec<(&u32, &u32)> = v.iter().map(|(k, v)| (k, v)).collect();
        m.par_extend(refs);
        true
    } else {
        false
    }
}
fn set_par_extend_ref<T: El>(s: &mut griddle::HashSet<T, gmc::hasher::HB>, items: &[u32]) -> bool {
    let any: &mut dyn std::any::Any = s;
    if let Some(s) = any.downcast_mut::<griddle::HashSet<u32, gmc::hasher::HB>>() {
        let v: Vec<u32> = items.to_vec();
        let refs: Vec<&u32> = v.iter().collect();
        s.par_extend(refs);
        true
    } else {
        false
    }
}

fn set_parop<T: El + Send + Sync>(a: &mut SetWorld<T>, b: &mut SetWorld<T>, op: usize) -> VResult<u64> {
    let ra: BTreeSet<u32> = a.r.keys().copied().collect();
    let rb: BTreeSet<u32> = b.r.keys().copied().collect();
    let name = SET_OPS[op];
    let v = |s: BTreeSet<u32>| s.into_iter().collect::<Vec<u32>>();
    let chk = |got: Vec<u32>, want: Vec<u32>| -> VResult<()> {
        let got = sorted(got);
        no_dups(&got, name)?;
        if got != want {
            bail!("{} yields {:?}, the sequential / mathematical result is {:?}", name, got, want);
        }
        Ok(())
    };
    match op {
        0 => chk(a.s.par_iter().map(|x| x.id()).collect(), v(ra.clone()))?,
        1 => {
            let (hk, seed) = (a.cfg.hk, a.cfg.seed);
            let s = std::mem::replace(&mut a.s, griddle::HashSet::with_hasher(gmc::hasher::HB::new(hk, seed)));
            chk(s.into_par_iter().map(|x| x.id()).collect(), v(ra.clone()))?;
            a.r.clear();
            a.audit(true)?;
        }
        2 => chk(a.s.par_union(&b.s).map(|x| x.id()).collect(), v(ra.union(&rb).copied().collect()))?,
        3 => chk(a.s.par_intersection(&b.s).map(|x| x.id()).collect(), v(ra.intersection(&rb).copied().collect()))?,
        4 => chk(a.s.par_difference(&b.s).map(|x| x.id()).collect(), v(ra.difference(&rb).copied().collect()))?,
        5 => chk(a.s.par_symmetric_difference(&b.s).map(|x| x.id()).collect(), v(ra.symmetric_difference(&rb).copied().collect()))?,
        6 => {
            if a.s.par_is_subset(&b.s) != ra.is_subset(&rb) || a.s.par_is_subset(&b.s) != a.s.is_subset(&b.s) {
                bail!("par_is_subset = {}, is_subset = {}", a.s.par_is_subset(&b.s), ra.is_subset(&rb));
            }
        }
        7 => {
            if a.s.par_is_superset(&b.s) != ra.is_superset(&rb) {
                bail!("par_is_superset = {}, is_superset = {}", a.s.par_is_superset(&b.s), ra.is_superset(&rb));
            }
        }
        8 => {
            if a.s.par_is_disjoint(&b.s) != ra.is_disjoint(&rb) {
                bail!("par_is_disjoint = {}, is_disjoint = {}", a.s.par_is_disjoint(&b.s), ra.is_disjoint(&rb));
            }
        }
        9 => {
            if a.s.par_eq(&b.s) != (ra == rb) || b.s.par_eq(&a.s) != (ra == rb) {
                bail!("par_eq = {}, == is {}", a.s.par_eq(&b.s), ra == rb);
            }
            // the same object on both sides, for all four predicates
            if !a.s.par_eq(&a.s) || !a.s.par_is_subset(&a.s) || !a.s.par_is_superset(&a.s) || a.s.par_is_disjoint(&a.s) != a.s.is_disjoint(&a.s) {
                bail!("a parallel predicate disagrees with the sequential one for a set against itself");
            }
            let c = a.s.clone();
            if !a.s.par_eq(&c) {
                bail!("par_eq is false for a set and its clone");
            }
        }
        10 | 12 | 13 => {
            // elements of the other set (some already present), fresh ones, and repeats: as for sequential
            // extend, the first of several equal elements is the one that is kept
            let mut items: Vec<u32> = rb.iter().copied().chain(a.next_key..a.next_key + 10).collect();
            let reps: Vec<u32> = items.iter().copied().step_by(3).collect();
            items.extend(reps);
            let mut seq = a.s.clone();
            seq.extend(items.iter().map(|&k| T::mk(k, true)));
            let mut expect_obj: BTreeMap<u32, u64> = a.r.clone();
            if op == 10 || op == 13 {
                let src: Vec<u32> = if op == 13 { lopsided(&items.iter().map(|&k| (k, 0)).collect::<Vec<_>>()).into_iter().map(|e| e.0).collect() } else { items.clone() };
                let elems: Vec<T> = src.iter().map(|&k| T::mk(k, true)).collect();
                for (e, &k) in elems.iter().zip(&src) {
                    if k != PAD || T::ZST {
                        expect_obj.entry(T::norm(k)).or_insert(e.obj());
                    }
                }
                if op == 13 {
                    a.s.par_extend(elems.into_par_iter().filter(|k| k.id() != PAD || T::ZST));
                } else {
                    a.s.par_extend(elems);
                }
            } else if !set_par_extend_ref(&mut a.s, &items) {
                return Ok(0);
            }
            if a.s != seq {
                bail!("{} builds a different set than sequential extend", name);
            }
            for &k in &items {
                a.r.entry(T::norm(k)).or_insert(0);
                if k >= a.next_key {
                    a.next_key = k + 1;
                }
            }
            let stored: BTreeMap<u32, u64> = a.s.iter().map(|x| (x.id(), x.obj())).collect();
            if T::TRACKED && (op == 10 || op == 13) && stored != expect_obj {
                bail!("{} keeps a different one of several equal elements than sequential extend (which keeps the first)", name);
            }
            a.r = stored;
            a.audit(true)?;
        }
        _ => {
            gmc::hasher::set_default_hb(a.cfg.hk, a.cfg.seed);
            let built: griddle::HashSet<T, gmc::hasher::HB> = ra.iter().map(|&k| T::mk(k, true)).collect::<Vec<T>>().into_par_iter().collect();
            if built != a.s {
                bail!("from_par_iter builds a set different from its input");
            }
        }
    }
    Ok(op as u64 ^ (ra.len() as u64) << 8 ^ (rb.len() as u64) << 24)
}

// ---------------------------------------------------------------------------------------------
// schedule exploration

pub struct Explored {
    pub runs: u64,
    pub outcomes: BTreeSet<u64>,
    pub failure: Option<(Viol, Vec<u8>)>,
}

#[cfg(feature = "shim")]
fn explore(max_splits: usize, _pools: usize, mut body: impl FnMut() -> VResult<u64>) -> Explored {
    let mut stack: Vec<Vec<u8>> = vec![vec![]];
    let mut ex = Explored { runs: 0, outcomes: BTreeSet::new(), failure: None };
    while let Some(prefix) = stack.pop() {
        rayon::sched::begin(prefix.clone(), max_splits);
        let out = catch(&mut body);
        let run = rayon::sched::end();
        ex.runs += 1;
        let script: Vec<u8> = run.trace.iter().map(|x| x.0).collect();
        match out {
            Ok(Ok(o)) => {
                ex.outcomes.insert(o);
            }
            Ok(Err(v)) => {
                if ex.failure.is_none() {
                    ex.failure = Some((v, script.clone()));
                }
            }
            Err(p) => {
                if ex.failure.is_none() {
                    ex.failure = Some((Viol::new("panic", p), script.clone()));
                }
            }
        }
        for i in prefix.len()..run.trace.len() {
            let (c, arity) = run.trace[i];
            if c != 0 {
                // beyond the replayed prefix the default choice is always 0
                ex.failure.get_or_insert((Viol::new("machinery", "non-default choice beyond the script prefix"), script.clone()));
            }
            for alt in 1..arity {
                let mut p: Vec<u8> = run.trace[..i].iter().map(|x| x.0).collect();
                p.push(alt);
                stack.push(p);
            }
        }
    }
    ex
}

#[cfg(not(feature = "shim"))]
thread_local! {
    static POOLS: std::cell::RefCell<Vec<rayon::ThreadPool>> = const { std::cell::RefCell::new(Vec::new()) };
    static POOL_IX: std::cell::Cell<usize> = const { std::cell::Cell::new(0) };
}
#[cfg(not(feature = "shim"))]
fn use_pool(n: usize) {
    POOLS.with(|p| {
        let mut p = p.borrow_mut();
        while p.len() < n {
            let k = p.len() + 1;
            p.push(rayon::ThreadPoolBuilder::new().num_threads(k).build().expect("pool"));
        }
    });
    POOL_IX.with(|c| c.set(n - 1));
}
/// Run the parallel call itself: on the current pool (real rayon) or right here (shim).
#[cfg(not(feature = "shim"))]
fn in_pool<R: Send>(f: impl FnOnce() -> R + Send) -> R {
    POOLS.with(|p| p.borrow()[POOL_IX.with(|c| c.get())].install(f))
}
#[cfg(feature = "shim")]
fn in_pool<R: Send>(f: impl FnOnce() -> R + Send) -> R {
    f()
}

#[cfg(not(feature = "shim"))]
fn explore(_max_splits: usize, pools: usize, mut body: impl FnMut() -> VResult<u64>) -> Explored {
    // real rayon: pools of 1..=pools threads; the split schedule is whatever work stealing does
    let mut ex = Explored { runs: 0, outcomes: BTreeSet::new(), failure: None };
    for n in 1..=pools {
        use_pool(n);
        let out = catch(&mut body);
        ex.runs += 1;
        match out {
            Ok(Ok(o)) => {
                ex.outcomes.insert(o);
            }
            Ok(Err(v)) => {
                ex.failure.get_or_insert((v, vec![n as u8]));
            }
            Err(p) => {
                ex.failure.get_or_insert((Viol::new("panic", p), vec![n as u8]));
            }
        }
    }
    ex
}

#[cfg(feature = "shim")]
fn replay_script(script: &[u8], max_splits: usize, body: impl FnOnce() -> VResult<u64>) -> VResult<u64> {
    rayon::sched::begin(script.to_vec(), max_splits);
    let out = catch(body);
    let _ = rayon::sched::end();
    match out {
        Ok(r) => r,
        Err(p) => Err(Viol::new("panic", p)),
    }
}
#[cfg(not(feature = "shim"))]
fn replay_script(script: &[u8], _max_splits: usize, body: impl FnOnce() -> VResult<u64>) -> VResult<u64> {
    let n = script.first().copied().unwrap_or(4) as usize;
    use_pool(n.max(1));
    match catch(body) {
        Ok(r) => r,
        Err(p) => Err(Viol::new("panic", p)),
    }
}

const SEP: u32 = u32::MAX;
const SCRIPT_KEY: u32 = u32::MAX - 2;

fn record(state_a: &[Op], state_b: Option<&[Op]>, op: usize, k: usize, script: &[u8]) -> Vec<Op> {
    let mut h = state_a.to_vec();
    if let Some(b) = state_b {
        h.push(Op::new(OpK::Clear, SEP, 1 << 32));
        h.extend(b.iter().copied());
    }
    h.push(Op::new(OpK::Clear, SEP, op as u64 | (k as u64) << 8));
    for &c in script {
        h.push(Op::new(OpK::Clear, SCRIPT_KEY, c as u64));
    }
    h
}

fn run_map<T: El + Send + Sync>(spec: &ShardSpec, cur: Option<&str>) -> Outcome {
    let t0 = std::time::Instant::now();
    let mut out = Outcome::default();
    let mut curf = CurFile::new(cur);
    let cfg = spec.cfg();
    let cap: usize = spec.extra.get("fam").and_then(|s| s.parse().ok()).unwrap_or(100);
    let k: usize = spec.extra.get("splits").and_then(|s| s.parse().ok()).unwrap_or(3);
    let pools: usize = spec.extra.get("pools").and_then(|s| s.parse().ok()).unwrap_or(16);
    let part: usize = spec.extra.get("part").and_then(|s| s.parse().ok()).unwrap_or(0);
    let parts: usize = spec.extra.get("parts").and_then(|s| s.parse().ok()).unwrap_or(1);
    let mut fam = build_family::<MapWorld<T>>(&cfg, "mut1+ch0+shape", spec.n, cap, &mut out, cur);
    if !T::ZST && (cfg.hk == gmc::hasher::H_GOOD || cfg.hk == gmc::hasher::H_TAG) && spec.extra.get("big").map_or(true, |s| s == "1") {
        fam.push((0..460).map(|k| Op::key(OpK::Insert, k)).collect());
        // late in a resize, with all but 1 / 2 / 3 of the remaining old-table elements removed again
        // (an old table that holds very few elements next to a large main table)
        for (n0, keep) in [(62u32, 1usize), (124, 1), (124, 2), (124, 3)] {
            let mut h: Vec<Op> = (0..n0).map(|k| Op::key(OpK::Insert, k)).collect();
            reset_exec();
            if let Ok(w) = build::<MapWorld<T>>(&cfg, &h) {
                let ids = w.old_ids(&w.dump());
                w.discard();
                if ids.len() > keep {
                    h.extend(ids[..ids.len() - keep].iter().map(|&k| Op::key(OpK::Remove, k)));
                    fam.push(h);
                }
            }
        }
    }
    out.layers.push((fam.len() as u64, 0));
    let mut sigs = HashSet::new();
    let mut seen = HashSet::new();
    let mut obs = HashSet::new();
    'all: for (i, st) in fam.iter().enumerate() {
        if i % parts != part {
            continue;
        }
        for op in 0..MAP_OPS.len() {
            if t0.elapsed().as_secs_f64() > spec.max_secs {
                out.capped = Some(format!("time cap {}s", spec.max_secs));
                break 'all;
            }
            curf.put(&record(st, None, op, k, &[]), None);
            PROGRESS.fetch_add(1, std::sync::atomic::Ordering::Relaxed);
            let mut key = 0u128;
            let mut phase = 0u8;
            let ex = explore(k, pools, || {
                reset_exec();
                let mut w = build::<MapWorld<T>>(&cfg, st)?;
                key = w.key128();
                phase = w.phase();
                let r = in_pool(|| map_parop(&mut w, op));
                match r {
                    Ok(o) => {
                        w.leaky = true; // element boxes of by-value parallel calls are freed by the callee
                        w.finish().map(|_| o)
                    }
                    Err(v) => {
                        std::mem::forget(w);
                        Err(v)
                    }
                }
            });
            if seen.insert((key, op)) {
                out.states += 1;
                out.phases[phase as usize & 3] += 1;
            }
            out.executions += ex.runs;
            out.transitions += ex.runs;
            out.steps += ex.runs * (st.len() as u64 + 1);
            for o in &ex.outcomes {
                obs.insert(*o);
            }
            let mut fail = ex.failure;
            if fail.is_none() && ex.outcomes.len() > 1 {
                fail = Some((Viol::new("mismatch", format!("{} gives {} different results depending on the schedule", MAP_OPS[op], ex.outcomes.len())), vec![]));
            }
            if let Some((v, script)) = fail {
                out.viol_count += 1;
                let sig = gmc::engine::sig_of(&v.kind, &v.msg, None);
                if sigs.insert(sig) && out.violations.len() < 12 {
                    out.violations.push(FoundViol { kind: v.kind, msg: v.msg, history: record(st, None, op, k, &script), step: 0 });
                }
            }
        }
        if out.samples.len() < 3 && i % 17 == 0 {
            out.samples.push(record(st, None, 0, k, &[1, 0, 1, 1]));
        }
    }
    out.distinct_obs = obs.len() as u64;
    out.wall_s = t0.elapsed().as_secs_f64();
    out
}

fn run_set<T: El + Send + Sync>(spec: &ShardSpec, cur: Option<&str>) -> Outcome {
    let t0 = std::time::Instant::now();
    let mut out = Outcome::default();
    let mut curf = CurFile::new(cur);
    let cfg = spec.cfg();
    let cap: usize = spec.extra.get("fam").and_then(|s| s.parse().ok()).unwrap_or(30);
    let k: usize = spec.extra.get("splits").and_then(|s| s.parse().ok()).unwrap_or(3);
    let pools: usize = spec.extra.get("pools").and_then(|s| s.parse().ok()).unwrap_or(16);
    let part: usize = spec.extra.get("part").and_then(|s| s.parse().ok()).unwrap_or(0);
    let parts: usize = spec.extra.get("parts").and_then(|s| s.parse().ok()).unwrap_or(1);
    let mut fam = build_family::<SetWorld<T>>(&cfg, "skey+sshape", spec.n, cap, &mut out, cur);
    let n_small = fam.len();
    // two large members (one mid-resize at 460 elements, one settled at 300): size thresholds in the glue
    if !T::ZST && (cfg.hk == gmc::hasher::H_GOOD || cfg.hk == gmc::hasher::H_TAG) && spec.extra.get("big").map_or(true, |s| s == "1") {
        fam.push((0..460).map(|k| Op::key(OpK::SInsert, k)).collect());
        fam.push((0..300).map(|k| Op::key(OpK::SInsert, k)).collect());
        for (n0, keep) in [(124u32, 1usize), (124, 2)] {
            let mut h: Vec<Op> = (0..n0).map(|k| Op::key(OpK::SInsert, k)).collect();
            reset_exec();
            if let Ok(w) = build::<SetWorld<T>>(&cfg, &h) {
                let d = w.dump();
                let ids: Vec<u32> = d.old.as_ref().map_or(vec![], |o| o.elems.iter().filter(|&&e| e != u64::MAX).map(|e| (e >> 8) as u32).collect());
                w.discard();
                if ids.len() > keep {
                    h.extend(ids[..ids.len() - keep].iter().map(|&k| Op::key(OpK::SRemove, k)));
                    fam.push(h);
                }
            }
        }
    }
    out.layers.push((fam.len() as u64, 0));
    let mut sigs = HashSet::new();
    let mut seen = HashSet::new();
    let mut obs = HashSet::new();
    let renames: [(u32, u32); 4] = [(1, 0), (1, 3), (2, 0), (1, 100_000)]; // same keys, shifted, spread, disjoint
    'all: for (i, sa) in fam.iter().enumerate() {
        if i % parts != part {
            continue;
        }
        for (j, sb0) in fam.iter().enumerate() {
            // the large members meet each other and the first (empty) small one only
            if (i >= n_small) != (j >= n_small) && i != 0 && j != 0 {
                continue;
            }
            for (ri, &(ra, rb)) in renames.iter().enumerate() {
                // unary ops need no second operand
                let sb = rename(sb0, ra, rb);
                for op in 0..SET_OPS.len() {
                    let unary = matches!(op, 0 | 1 | 11);
                    if unary && (j != 0 || ri != 0) {
                        continue;
                    }
                    if t0.elapsed().as_secs_f64() > spec.max_secs {
                        out.capped = Some(format!("time cap {}s", spec.max_secs));
                        break 'all;
                    }
                    curf.put(&record(sa, Some(&sb), op, k, &[]), None);
                    PROGRESS.fetch_add(1, std::sync::atomic::Ordering::Relaxed);
                    let mut key = (0u128, 0u128);
                    let ex = explore(k, pools, || {
                        reset_exec();
                        let mut a = build::<SetWorld<T>>(&cfg, sa)?;
                        let mut cb = cfg.clone();
                        cb.seed = 2;
                        let mut b = match build::<SetWorld<T>>(&cb, &sb) {
                            Ok(b) => b,
                            Err(v) => {
                                std::mem::forget(a);
                                return Err(v);
                            }
                        };
                        key = (a.key128(), b.key128());
                        let r = in_pool(|| set_parop(&mut a, &mut b, op));
                        match r {
                            Ok(o) => {
                                a.discard();
                                b.discard();
                                match gmc::elem::ledger_fault() {
                                    Some(f) => Err(Viol::new("ledger", f)),
                                    None => Ok(o),
                                }
                            }
                            Err(v) => {
                                std::mem::forget(a);
                                std::mem::forget(b);
                                Err(v)
                            }
                        }
                    });
                    if seen.insert((key, op)) {
                        out.states += 1;
                    }
                    out.executions += ex.runs;
                    out.transitions += ex.runs;
                    out.steps += ex.runs * (sa.len() + sb.len() + 1) as u64;
                    for o in &ex.outcomes {
                        obs.insert(*o);
                    }
                    let mut fail = ex.failure;
                    if fail.is_none() && ex.outcomes.len() > 1 {
                        fail = Some((Viol::new("mismatch", format!("{} gives {} different results depending on the schedule", SET_OPS[op], ex.outcomes.len())), vec![]));
                    }
                    if let Some((v, script)) = fail {
                        out.viol_count += 1;
                        let sig = gmc::engine::sig_of(&v.kind, &v.msg, None);
                        if sigs.insert(sig) && out.violations.len() < 12 {
                            out.violations.push(FoundViol { kind: v.kind, msg: v.msg, history: record(sa, Some(&sb), op, k, &script), step: 0 });
                        }
                    }
                }
            }
        }
        if out.samples.len() < 3 && i % 11 == 0 {
            out.samples.push(record(sa, Some(sa), 2, k, &[1, 1, 0]));
        }
    }
    out.distinct_obs = obs.len() as u64;
    out.wall_s = t0.elapsed().as_secs_f64();
    out
}

fn replay<T: El + Send + Sync>(spec: &ShardSpec, hist: &[Op]) -> VResult<u64> {
    let cfg = spec.cfg();
    let marks: Vec<usize> = hist.iter().enumerate().filter(|(_, o)| o.k == OpK::Clear && o.key == SEP).map(|(i, _)| i).collect();
    let script: Vec<u8> = hist.iter().filter(|o| o.k == OpK::Clear && o.key == SCRIPT_KEY).map(|o| o.arg as u8).collect();
    let last = match marks.last() {
        Some(&l) => l,
        None => {
            // a violation met while building the state family: a plain single-world history
            return if spec.world == "map" { gmc::pairs::replay_plain::<MapWorld<T>>(spec, hist).map(|_| 0) } else { gmc::pairs::replay_plain::<SetWorld<T>>(spec, hist).map(|_| 0) };
        }
    };
    let op = (hist[last].arg & 0xFF) as usize;
    let k = ((hist[last].arg >> 8) & 0xFF) as usize;
    reset_exec();
    if spec.world == "map" {
        let st = &hist[..last];
        replay_script(&script, k, || {
            let mut w = build::<MapWorld<T>>(&cfg, st)?;
            let r = in_pool(|| map_parop(&mut w, op));
            std::mem::forget(w);
            r
        })
    } else {
        let first = marks[0];
        let (sa, sb) = (&hist[..first], &hist[first + 1..last]);
        replay_script(&script, k, || {
            let mut a = build::<SetWorld<T>>(&cfg, sa)?;
            let mut cb = cfg.clone();
            cb.seed = 2;
            let mut b = build::<SetWorld<T>>(&cb, sb)?;
            let r = in_pool(|| set_parop(&mut a, &mut b, op));
            std::mem::forget(a);
            std::mem::forget(b);
            r
        })
    }
}

pub fn main() {
    gmc::util::install_panic_hook();
    let args: Vec<String> = std::env::args().collect();
    match args.get(1).map(|s| s.as_str()) {
        Some("shard") => {
            let spec: ShardSpec = serde_json::from_str(&std::fs::read_to_string(&args[2]).expect("spec file")).expect("spec json");
            let cur = args.get(4).map(|s| s.as_str());
            let o = match (spec.world.as_str(), spec.ty.as_str()) {
                ("map", "u32") => run_map::<u32>(&spec, cur),
                ("map", "tk") => run_map::<Tk>(&spec, cur),
                ("set", "u32") => run_set::<u32>(&spec, cur),
                ("set", "tk") => run_set::<Tk>(&spec, cur),
                (w, t) => panic!("no parallel runner for {} {}", w, t),
            };
            let mut res = result_of(&spec, o);
            res.extra.insert("real_rayon".into(), serde_json::json!(!cfg!(feature = "shim")));
            std::fs::write(&args[3], serde_json::to_string(&res).unwrap()).expect("write result");
        }
        Some("replay") => {
            let doc: serde_json::Value = serde_json::from_str(&std::fs::read_to_string(&args[2]).expect("replay file")).expect("json");
            let spec: ShardSpec = serde_json::from_value(doc["spec"].clone()).expect("spec");
            let hist: Vec<String> = serde_json::from_value(doc["history"].clone()).expect("history");
            let ops = gmc::shard::strings_to_ops(&hist).expect("ops");
            let r = match spec.ty.as_str() {
                "u32" => replay::<u32>(&spec, &ops),
                _ => replay::<Tk>(&spec, &ops),
            };
            match r {
                Ok(_) => {
                    println!("replay: no violation");
                    std::process::exit(0)
                }
                Err(v) => {
                    println!("replay: violation: {}: {}", v.kind, v.msg);
                    println!("SIG {}", gmc::engine::sig_of(&v.kind, &v.msg, None));
                    std::process::exit(1)
                }
            }
        }
        _ => {
            eprintln!("usage: gmc-par shard <spec> <out> <cur> | gmc-par replay <file>");
            std::process::exit(2)
        }
    }
}
