// The same harness as /verif/mc-par, linked against the real rayon.
#[path = "../../mc-par/src/harness.rs"]
mod harness;
fn main() {
    harness::main();
}
