//! A controllable stand-in for the `rayon` crate (used by /verif/mc-par, property C15).
//! Only the plumbing contract is kept; every scheduling decision (split or not, which half
//! first) is taken from a thread-local script owned by the explorer.

pub mod sched {
    use std::cell::RefCell;
    #[derive(Default, Clone, Debug)]
    pub struct Run {
        pub script: Vec<u8>,
        pub pos: usize,
        /// (chosen, arity) per choice point actually hit
        pub trace: Vec<(u8, u8)>,
        pub splits_left: usize,
    }
    thread_local!(static RUN: RefCell<Run> = RefCell::new(Run::default()));
    pub fn begin(script: Vec<u8>, max_splits: usize) {
        RUN.with(|r| {
            *r.borrow_mut() = Run { script, pos: 0, trace: vec![], splits_left: max_splits }
        })
    }
    pub fn end() -> Run {
        RUN.with(|r| std::mem::take(&mut *r.borrow_mut()))
    }
    pub fn choose(arity: u8) -> u8 {
        RUN.with(|r| {
            let mut r = r.borrow_mut();
            let c = if r.pos < r.script.len() { r.script[r.pos] } else { 0 };
            assert!(c < arity, "script choice out of range (divergent replay)");
            r.pos += 1;
            r.trace.push((c, arity));
            c
        })
    }
    pub(crate) fn take_split() -> bool {
        RUN.with(|r| {
            let left = r.borrow().splits_left;
            if left == 0 {
                return false;
            }
            let c = super::sched::choose(2);
            if c == 1 {
                r.borrow_mut().splits_left -= 1;
                true
            } else {
                false
            }
        })
    }
}

/// `rayon::join`: both closures run to completion; which one runs first is a scheduling decision
/// (on real rayon `b` may be stolen and run concurrently with or before `a`).
pub fn join<A, B, RA, RB>(a: A, b: B) -> (RA, RB)
where
    A: FnOnce() -> RA + Send,
    B: FnOnce() -> RB + Send,
    RA: Send,
    RB: Send,
{
    if sched::choose(2) == 0 {
        let ra = a();
        let rb = b();
        (ra, rb)
    } else {
        let rb = b();
        let ra = a();
        (ra, rb)
    }
}

pub fn current_num_threads() -> usize {
    4
}

pub mod iter {
    pub mod plumbing {
        pub trait Consumer<Item>: Send + Sized {
            type Folder: Folder<Item, Result = Self::Result>;
            type Reducer: Reducer<Self::Result>;
            type Result: Send;
            fn split_at(self, index: usize) -> (Self, Self, Self::Reducer);
            fn into_folder(self) -> Self::Folder;
            fn full(&self) -> bool;
        }
        pub trait Folder<Item>: Sized {
            type Result;
            fn consume(self, item: Item) -> Self;
            fn consume_iter<I>(mut self, iter: I) -> Self
            where
                I: IntoIterator<Item = Item>,
            {
                for item in iter {
                    self = self.consume(item);
                    if self.full() {
                        break;
                    }
                }
                self
            }
            fn complete(self) -> Self::Result;
            fn full(&self) -> bool;
        }
        pub trait Reducer<Result> {
            fn reduce(self, left: Result, right: Result) -> Result;
        }
        pub trait UnindexedConsumer<I>: Consumer<I> {
            fn split_off_left(&self) -> Self;
            fn to_reducer(&self) -> Self::Reducer;
        }
        pub trait UnindexedProducer: Send + Sized {
            type Item;
            fn split(self) -> (Self, Option<Self>);
            fn fold_with<F>(self, folder: F) -> F
            where
                F: Folder<Self::Item>;
        }

        pub fn bridge_unindexed<P, C>(producer: P, consumer: C) -> C::Result
        where
            P: UnindexedProducer,
            C: UnindexedConsumer<P::Item>,
        {
            if consumer.full() {
                return consumer.into_folder().complete();
            }
            if crate::sched::take_split() {
                match producer.split() {
                    (l, Some(r)) => {
                        let reducer = consumer.to_reducer();
                        let lc = consumer.split_off_left();
                        let rc = consumer;
                        let (lr, rr) = if crate::sched::choose(2) == 0 {
                            let lr = bridge_unindexed(l, lc);
                            let rr = bridge_unindexed(r, rc);
                            (lr, rr)
                        } else {
                            let rr = bridge_unindexed(r, rc);
                            let lr = bridge_unindexed(l, lc);
                            (lr, rr)
                        };
                        reducer.reduce(lr, rr)
                    }
                    (p, None) => p.fold_with(consumer.into_folder()).complete(),
                }
            } else {
                producer.fold_with(consumer.into_folder()).complete()
            }
        }
    }

    use plumbing::*;

    pub trait ParallelIterator: Sized + Send {
        type Item: Send;
        fn drive_unindexed<C>(self, consumer: C) -> C::Result
        where
            C: UnindexedConsumer<Self::Item>;
        fn opt_len(&self) -> Option<usize> {
            None
        }
        fn map<F, R>(self, map_op: F) -> Map<Self, F>
        where
            F: Fn(Self::Item) -> R + Sync + Send,
            R: Send,
        {
            Map { base: self, f: map_op }
        }
        fn filter<P>(self, p: P) -> Filter<Self, P>
        where
            P: Fn(&Self::Item) -> bool + Sync + Send,
        {
            Filter { base: self, p }
        }
        fn chain<C>(self, c: C) -> Chain<Self, C::Iter>
        where
            C: IntoParallelIterator<Item = Self::Item>,
        {
            Chain { a: self, b: c.into_par_iter() }
        }
        fn fold<T, ID, F>(self, identity: ID, fold_op: F) -> Fold<Self, ID, F>
        where
            F: Fn(T, Self::Item) -> T + Sync + Send,
            ID: Fn() -> T + Sync + Send,
            T: Send,
        {
            Fold { base: self, id: identity, f: fold_op }
        }
        fn reduce<OP, ID>(self, identity: ID, op: OP) -> Self::Item
        where
            OP: Fn(Self::Item, Self::Item) -> Self::Item + Sync + Send,
            ID: Fn() -> Self::Item + Sync + Send,
        {
            self.drive_unindexed(ReduceConsumer { id: &identity, op: &op })
        }
        fn for_each<OP>(self, op: OP)
        where
            OP: Fn(Self::Item) + Sync + Send,
        {
            self.map(op).reduce(|| (), |_, _| ())
        }
        fn count(self) -> usize {
            self.map(|_| 1usize).reduce(|| 0, |a, b| a + b)
        }
        fn all<P>(self, p: P) -> bool
        where
            P: Fn(Self::Item) -> bool + Sync + Send,
        {
            use std::sync::atomic::{AtomicBool, Ordering};
            let found = AtomicBool::new(false);
            self.drive_unindexed(AllConsumer { p: &p, found: &found });
            !found.load(Ordering::SeqCst)
        }
        fn cloned<'a, T>(self) -> Map<Self, fn(&'a T) -> T>
        where
            T: 'a + Clone + Send + Sync,
            Self: ParallelIterator<Item = &'a T>,
        {
            fn c<T: Clone>(x: &T) -> T {
                x.clone()
            }
            Map { base: self, f: c::<T> as fn(&'a T) -> T }
        }
        fn collect<C>(self) -> C
        where
            C: FromParallelIterator<Self::Item>,
        {
            C::from_par_iter(self)
        }
    }

    pub trait IntoParallelIterator {
        type Iter: ParallelIterator<Item = Self::Item>;
        type Item: Send;
        fn into_par_iter(self) -> Self::Iter;
    }
    impl<T: ParallelIterator> IntoParallelIterator for T {
        type Iter = T;
        type Item = T::Item;
        fn into_par_iter(self) -> T {
            self
        }
    }
    pub trait IntoParallelRefIterator<'data> {
        type Iter: ParallelIterator<Item = Self::Item>;
        type Item: Send + 'data;
        fn par_iter(&'data self) -> Self::Iter;
    }
    impl<'data, I: 'data + ?Sized> IntoParallelRefIterator<'data> for I
    where
        &'data I: IntoParallelIterator,
    {
        type Iter = <&'data I as IntoParallelIterator>::Iter;
        type Item = <&'data I as IntoParallelIterator>::Item;
        fn par_iter(&'data self) -> Self::Iter {
            self.into_par_iter()
        }
    }
    pub trait IntoParallelRefMutIterator<'data> {
        type Iter: ParallelIterator<Item = Self::Item>;
        type Item: Send + 'data;
        fn par_iter_mut(&'data mut self) -> Self::Iter;
    }
    impl<'data, I: 'data + ?Sized> IntoParallelRefMutIterator<'data> for I
    where
        &'data mut I: IntoParallelIterator,
    {
        type Iter = <&'data mut I as IntoParallelIterator>::Iter;
        type Item = <&'data mut I as IntoParallelIterator>::Item;
        fn par_iter_mut(&'data mut self) -> Self::Iter {
            self.into_par_iter()
        }
    }
    pub trait FromParallelIterator<T: Send> {
        fn from_par_iter<I>(par_iter: I) -> Self
        where
            I: IntoParallelIterator<Item = T>;
    }
    pub trait ParallelExtend<T: Send> {
        fn par_extend<I>(&mut self, par_iter: I)
        where
            I: IntoParallelIterator<Item = T>;
    }

    // ---- Vec as a splittable source and as a sink -------------------------------------------
    pub struct VecIter<T>(Vec<T>);
    impl<T: Send> IntoParallelIterator for Vec<T> {
        type Iter = VecIter<T>;
        type Item = T;
        fn into_par_iter(self) -> VecIter<T> {
            VecIter(self)
        }
    }
    struct VecProducer<T>(Vec<T>);
    impl<T: Send> UnindexedProducer for VecProducer<T> {
        type Item = T;
        fn split(mut self) -> (Self, Option<Self>) {
            if self.0.len() < 2 {
                (self, None)
            } else {
                let r = self.0.split_off(self.0.len() / 2);
                (self, Some(VecProducer(r)))
            }
        }
        fn fold_with<F: Folder<T>>(self, folder: F) -> F {
            folder.consume_iter(self.0)
        }
    }
    impl<T: Send> ParallelIterator for VecIter<T> {
        type Item = T;
        fn drive_unindexed<C: UnindexedConsumer<T>>(self, c: C) -> C::Result {
            bridge_unindexed(VecProducer(self.0), c)
        }
    }
    impl<T: Send> FromParallelIterator<T> for Vec<T> {
        fn from_par_iter<I: IntoParallelIterator<Item = T>>(i: I) -> Self {
            i.into_par_iter()
                .fold(Vec::new, |mut v, x| {
                    v.push(x);
                    v
                })
                .reduce(Vec::new, |mut a, mut b| {
                    a.append(&mut b);
                    a
                })
        }
    }

    // ---- adapters ----------------------------------------------------------------------------
    pub struct Map<I, F> {
        base: I,
        f: F,
    }
    impl<I, F, R> ParallelIterator for Map<I, F>
    where
        I: ParallelIterator,
        F: Fn(I::Item) -> R + Sync + Send,
        R: Send,
    {
        type Item = R;
        fn drive_unindexed<C: UnindexedConsumer<R>>(self, c: C) -> C::Result {
            self.base.drive_unindexed(MapConsumer { base: c, f: &self.f })
        }
    }
    struct MapConsumer<'f, C, F> {
        base: C,
        f: &'f F,
    }
    impl<'f, T, R, C, F> Consumer<T> for MapConsumer<'f, C, F>
    where
        C: Consumer<R>,
        F: Fn(T) -> R + Sync,
    {
        type Folder = MapFolder<'f, C::Folder, F>;
        type Reducer = C::Reducer;
        type Result = C::Result;
        fn split_at(self, i: usize) -> (Self, Self, C::Reducer) {
            let (l, r, red) = self.base.split_at(i);
            (MapConsumer { base: l, f: self.f }, MapConsumer { base: r, f: self.f }, red)
        }
        fn into_folder(self) -> Self::Folder {
            MapFolder { base: self.base.into_folder(), f: self.f }
        }
        fn full(&self) -> bool {
            self.base.full()
        }
    }
    impl<'f, T, R, C, F> UnindexedConsumer<T> for MapConsumer<'f, C, F>
    where
        C: UnindexedConsumer<R>,
        F: Fn(T) -> R + Sync,
    {
        fn split_off_left(&self) -> Self {
            MapConsumer { base: self.base.split_off_left(), f: self.f }
        }
        fn to_reducer(&self) -> C::Reducer {
            self.base.to_reducer()
        }
    }
    struct MapFolder<'f, FD, F> {
        base: FD,
        f: &'f F,
    }
    impl<'f, T, R, FD: Folder<R>, F: Fn(T) -> R> Folder<T> for MapFolder<'f, FD, F> {
        type Result = FD::Result;
        fn consume(self, item: T) -> Self {
            MapFolder { base: self.base.consume((self.f)(item)), f: self.f }
        }
        fn complete(self) -> FD::Result {
            self.base.complete()
        }
        fn full(&self) -> bool {
            self.base.full()
        }
    }

    pub struct Filter<I, P> {
        base: I,
        p: P,
    }
    impl<I, P> ParallelIterator for Filter<I, P>
    where
        I: ParallelIterator,
        P: Fn(&I::Item) -> bool + Sync + Send,
    {
        type Item = I::Item;
        fn drive_unindexed<C: UnindexedConsumer<I::Item>>(self, c: C) -> C::Result {
            self.base.drive_unindexed(FilterConsumer { base: c, p: &self.p })
        }
    }
    struct FilterConsumer<'p, C, P> {
        base: C,
        p: &'p P,
    }
    impl<'p, T, C: Consumer<T>, P: Fn(&T) -> bool + Sync> Consumer<T> for FilterConsumer<'p, C, P> {
        type Folder = FilterFolder<'p, C::Folder, P>;
        type Reducer = C::Reducer;
        type Result = C::Result;
        fn split_at(self, i: usize) -> (Self, Self, C::Reducer) {
            let (l, r, red) = self.base.split_at(i);
            (FilterConsumer { base: l, p: self.p }, FilterConsumer { base: r, p: self.p }, red)
        }
        fn into_folder(self) -> Self::Folder {
            FilterFolder { base: self.base.into_folder(), p: self.p }
        }
        fn full(&self) -> bool {
            self.base.full()
        }
    }
    impl<'p, T, C: UnindexedConsumer<T>, P: Fn(&T) -> bool + Sync> UnindexedConsumer<T>
        for FilterConsumer<'p, C, P>
    {
        fn split_off_left(&self) -> Self {
            FilterConsumer { base: self.base.split_off_left(), p: self.p }
        }
        fn to_reducer(&self) -> C::Reducer {
            self.base.to_reducer()
        }
    }
    struct FilterFolder<'p, FD, P> {
        base: FD,
        p: &'p P,
    }
    impl<'p, T, FD: Folder<T>, P: Fn(&T) -> bool> Folder<T> for FilterFolder<'p, FD, P> {
        type Result = FD::Result;
        fn consume(self, item: T) -> Self {
            if (self.p)(&item) {
                FilterFolder { base: self.base.consume(item), p: self.p }
            } else {
                self
            }
        }
        fn complete(self) -> FD::Result {
            self.base.complete()
        }
        fn full(&self) -> bool {
            self.base.full()
        }
    }

    pub struct Chain<A, B> {
        a: A,
        b: B,
    }
    impl<A, B> ParallelIterator for Chain<A, B>
    where
        A: ParallelIterator,
        B: ParallelIterator<Item = A::Item>,
    {
        type Item = A::Item;
        fn drive_unindexed<C: UnindexedConsumer<A::Item>>(self, c: C) -> C::Result {
            let reducer = c.to_reducer();
            let left = c.split_off_left();
            let (l, r) = if crate::sched::choose(2) == 0 {
                let l = self.a.drive_unindexed(left);
                let r = self.b.drive_unindexed(c);
                (l, r)
            } else {
                let r = self.b.drive_unindexed(c);
                let l = self.a.drive_unindexed(left);
                (l, r)
            };
            reducer.reduce(l, r)
        }
    }

    pub struct Fold<I, ID, F> {
        base: I,
        id: ID,
        f: F,
    }
    impl<T, I, ID, F> ParallelIterator for Fold<I, ID, F>
    where
        I: ParallelIterator,
        F: Fn(T, I::Item) -> T + Sync + Send,
        ID: Fn() -> T + Sync + Send,
        T: Send,
    {
        type Item = T;
        fn drive_unindexed<C: UnindexedConsumer<T>>(self, c: C) -> C::Result {
            self.base.drive_unindexed(FoldConsumer { base: c, id: &self.id, f: &self.f })
        }
    }
    struct FoldConsumer<'a, C, ID, F> {
        base: C,
        id: &'a ID,
        f: &'a F,
    }
    impl<'a, T, U, C, ID, F> Consumer<U> for FoldConsumer<'a, C, ID, F>
    where
        C: Consumer<T>,
        F: Fn(T, U) -> T + Sync,
        ID: Fn() -> T + Sync,
        T: Send,
    {
        type Folder = FoldFolder<'a, C::Folder, T, F>;
        type Reducer = C::Reducer;
        type Result = C::Result;
        fn split_at(self, i: usize) -> (Self, Self, C::Reducer) {
            let (l, r, red) = self.base.split_at(i);
            (
                FoldConsumer { base: l, id: self.id, f: self.f },
                FoldConsumer { base: r, id: self.id, f: self.f },
                red,
            )
        }
        fn into_folder(self) -> Self::Folder {
            FoldFolder { base: self.base.into_folder(), acc: (self.id)(), f: self.f }
        }
        fn full(&self) -> bool {
            self.base.full()
        }
    }
    impl<'a, T, U, C, ID, F> UnindexedConsumer<U> for FoldConsumer<'a, C, ID, F>
    where
        C: UnindexedConsumer<T>,
        F: Fn(T, U) -> T + Sync,
        ID: Fn() -> T + Sync,
        T: Send,
    {
        fn split_off_left(&self) -> Self {
            FoldConsumer { base: self.base.split_off_left(), id: self.id, f: self.f }
        }
        fn to_reducer(&self) -> C::Reducer {
            self.base.to_reducer()
        }
    }
    struct FoldFolder<'a, FD, T, F> {
        base: FD,
        acc: T,
        f: &'a F,
    }
    impl<'a, FD, T, U, F> Folder<U> for FoldFolder<'a, FD, T, F>
    where
        FD: Folder<T>,
        F: Fn(T, U) -> T,
    {
        type Result = FD::Result;
        fn consume(self, item: U) -> Self {
            FoldFolder { base: self.base, acc: (self.f)(self.acc, item), f: self.f }
        }
        fn complete(self) -> FD::Result {
            self.base.consume(self.acc).complete()
        }
        fn full(&self) -> bool {
            self.base.full()
        }
    }

    struct ReduceConsumer<'a, OP, ID> {
        id: &'a ID,
        op: &'a OP,
    }
    impl<'a, OP, ID> Clone for ReduceConsumer<'a, OP, ID> {
        fn clone(&self) -> Self {
            ReduceConsumer { id: self.id, op: self.op }
        }
    }
    impl<'a, T, OP, ID> Consumer<T> for ReduceConsumer<'a, OP, ID>
    where
        OP: Fn(T, T) -> T + Sync,
        ID: Fn() -> T + Sync,
        T: Send,
    {
        type Folder = ReduceFolder<'a, OP, T>;
        type Reducer = Self;
        type Result = T;
        fn split_at(self, _: usize) -> (Self, Self, Self) {
            (self.clone(), self.clone(), self)
        }
        fn into_folder(self) -> Self::Folder {
            ReduceFolder { op: self.op, item: (self.id)() }
        }
        fn full(&self) -> bool {
            false
        }
    }
    impl<'a, T, OP, ID> UnindexedConsumer<T> for ReduceConsumer<'a, OP, ID>
    where
        OP: Fn(T, T) -> T + Sync,
        ID: Fn() -> T + Sync,
        T: Send,
    {
        fn split_off_left(&self) -> Self {
            self.clone()
        }
        fn to_reducer(&self) -> Self {
            self.clone()
        }
    }
    impl<'a, T, OP, ID> Reducer<T> for ReduceConsumer<'a, OP, ID>
    where
        OP: Fn(T, T) -> T + Sync,
    {
        fn reduce(self, l: T, r: T) -> T {
            (self.op)(l, r)
        }
    }
    struct ReduceFolder<'a, OP, T> {
        op: &'a OP,
        item: T,
    }
    impl<'a, OP: Fn(T, T) -> T, T> Folder<T> for ReduceFolder<'a, OP, T> {
        type Result = T;
        fn consume(self, item: T) -> Self {
            ReduceFolder { op: self.op, item: (self.op)(self.item, item) }
        }
        fn complete(self) -> T {
            self.item
        }
        fn full(&self) -> bool {
            false
        }
    }

    use std::sync::atomic::{AtomicBool, Ordering};
    struct AllConsumer<'a, P> {
        p: &'a P,
        found: &'a AtomicBool,
    }
    struct NoopReducer;
    impl Reducer<()> for NoopReducer {
        fn reduce(self, _: (), _: ()) {}
    }
    impl<'a, T, P: Fn(T) -> bool + Sync> Consumer<T> for AllConsumer<'a, P> {
        type Folder = Self;
        type Reducer = NoopReducer;
        type Result = ();
        fn split_at(self, _: usize) -> (Self, Self, NoopReducer) {
            (AllConsumer { p: self.p, found: self.found }, self, NoopReducer)
        }
        fn into_folder(self) -> Self {
            self
        }
        fn full(&self) -> bool {
            self.found.load(Ordering::SeqCst)
        }
    }
    impl<'a, T, P: Fn(T) -> bool + Sync> UnindexedConsumer<T> for AllConsumer<'a, P> {
        fn split_off_left(&self) -> Self {
            AllConsumer { p: self.p, found: self.found }
        }
        fn to_reducer(&self) -> NoopReducer {
            NoopReducer
        }
    }
    impl<'a, T, P: Fn(T) -> bool> Folder<T> for AllConsumer<'a, P> {
        type Result = ();
        fn consume(self, item: T) -> Self {
            if !(self.p)(item) {
                self.found.store(true, Ordering::SeqCst);
            }
            self
        }
        fn complete(self) {}
        fn full(&self) -> bool {
            self.found.load(Ordering::SeqCst)
        }
    }
}

pub mod prelude {
    pub use crate::iter::{
        FromParallelIterator, IntoParallelIterator, IntoParallelRefIterator,
        IntoParallelRefMutIterator, ParallelExtend, ParallelIterator,
    };
}
