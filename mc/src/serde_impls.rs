//! serde glue for the harness element types (C16).

use crate::elem::{El, Tk};
use serde::{Deserialize, Deserializer, Serialize, Serializer};

pub trait SerdeEl: Serialize + for<'de> Deserialize<'de> {}
impl SerdeEl for u32 {}
impl SerdeEl for () {}
impl SerdeEl for Tk {}

impl Serialize for Tk {
    fn serialize<S: Serializer>(&self, s: S) -> Result<S::Ok, S::Error> {
        s.serialize_u32(self.id())
    }
}
impl<'de> Deserialize<'de> for Tk {
    fn deserialize<D: Deserializer<'de>>(d: D) -> Result<Self, D::Error> {
        let id = u32::deserialize(d)?;
        // role is fixed up by the caller where it matters (keys hash/eq by id only)
        Ok(Tk::mk(id, true))
    }
}
