//! Explorers over a `World`: E1 (growth path + deviation budget) and E2 (closure over a tiny key
//! universe, to a fixpoint).  State = history; de-duplication by exact physical key.

use crate::alloc;
use crate::elem;
use crate::hasher;
use crate::mapworld::{Cfg, Classes};
use crate::op::*;
use crate::util::H128;
use std::collections::HashSet;
use std::io::Write;
use std::time::Instant;

pub trait World: Sized {
    fn create(cfg: &Cfg) -> VResult<Self>;
    fn apply(&mut self, op: Op) -> VResult<u64>;
    fn audit(&mut self, full: bool) -> VResult<()>;
    fn key128(&self) -> u128;
    fn len(&self) -> usize;
    fn next_key(&self) -> u32;
    fn classes(&self) -> Classes;
    fn phase(&self) -> u8;
    fn obs_state(&self) -> u64;
    fn default_op(&self) -> Op;
    fn finish(self) -> VResult<()>;
    /// Drop the world without the global leak checks (another world is still alive).
    fn discard(self) -> bool;
    fn present(&self) -> Vec<u32>;
    fn capacity(&self) -> usize;
}

/// What an alphabet may look at.
pub struct AlphaCtx {
    pub classes: Classes,
    pub next_key: u32,
    pub len: usize,
    pub cap: usize,
    pub present: Vec<u32>,
    /// use every concrete key instead of class representatives
    pub concrete: bool,
    pub layer: usize,
    pub universe: u32,
}
pub type Alphabet = dyn Fn(&AlphaCtx) -> Vec<Op>;

#[derive(Clone, Copy)]
struct Node {
    parent: u32,
    op: Op,
}

#[derive(Clone, Debug)]
pub struct FoundViol {
    pub kind: String,
    pub msg: String,
    pub history: Vec<Op>,
    pub step: usize,
}

#[derive(Default)]
pub struct Outcome {
    pub states: u64,
    pub transitions: u64,
    pub executions: u64,
    pub steps: u64,
    pub max_depth: usize,
    pub layers: Vec<(u64, u64)>, // (states first reached, executions) per layer
    pub capped: Option<String>,
    pub fixpoint: bool,
    pub phases: [u64; 4],
    pub distinct_obs: u64,
    pub violations: Vec<FoundViol>,
    pub viol_count: u64,
    pub samples: Vec<Vec<Op>>,
    pub chunk_digests: Vec<u64>,
    pub digest: u64,
    pub wall_s: f64,
    /// histories of the growth-path states and of the states directly after a deviation
    pub family: Vec<Vec<Op>>,
}

pub struct Limits {
    pub max_states: u64,
    pub max_secs: f64,
    pub max_viol: usize,
}

pub fn reset_exec() {
    alloc::reset();
    elem::ledger_reset();
    hasher::reset_counts();
    hasher::disarm();
}

/// Where the history currently being executed is mirrored (for crash / hang forensics).
pub struct CurFile {
    f: Option<std::fs::File>,
}
impl CurFile {
    pub fn new(path: Option<&str>) -> CurFile {
        CurFile { f: path.and_then(|p| std::fs::File::create(p).ok()) }
    }
    pub fn put(&mut self, hist: &[Op], next: Option<Op>) {
        use std::os::unix::fs::FileExt;
        if let Some(f) = &self.f {
            let mut s = String::with_capacity(hist.len() * 12 + 32);
            for o in hist {
                s.push_str(&o.to_string());
                s.push(';');
            }
            if let Some(o) = next {
                s.push_str(&o.to_string());
                s.push(';');
            }
            s.push_str("\n\0");
            let _ = f.write_at(s.as_bytes(), 0);
        }
    }
}

pub static PROGRESS: std::sync::atomic::AtomicU64 = std::sync::atomic::AtomicU64::new(0);

struct Explorer<'a, W: World> {
    cfg: &'a Cfg,
    nodes: Vec<Node>,
    seen: HashSet<u128>,
    obs_seen: HashSet<u64>,
    out: Outcome,
    lim: &'a Limits,
    t0: Instant,
    cur: CurFile,
    sig_seen: HashSet<String>,
    chunk: H128,
    chunk_n: u64,
    trace: Option<(u64, std::fs::File)>,
    family: Vec<u32>,
    pub collect_family: bool,
    _w: std::marker::PhantomData<W>,
}

pub fn sig_of(kind: &str, msg: &str, op: Option<Op>) -> String {
    let mut s = String::new();
    s.push_str(kind);
    s.push(':');
    let mut last_hash = false;
    for c in msg.chars().take(110) {
        if c.is_ascii_digit() {
            if !last_hash {
                s.push('#');
            }
            last_hash = true;
        } else {
            s.push(c);
            last_hash = false;
        }
    }
    if let Some(o) = op {
        s.push_str(" op=");
        s.push_str(o.k.name());
    }
    s
}

impl<'a, W: World> Explorer<'a, W> {
    fn new(cfg: &'a Cfg, lim: &'a Limits, cur: Option<&str>, trace: Option<(u64, String)>) -> Self {
        Explorer {
            cfg,
            nodes: vec![Node { parent: u32::MAX, op: Op::k(OpK::Clear) }],
            seen: HashSet::new(),
            obs_seen: HashSet::new(),
            out: Outcome::default(),
            lim,
            t0: Instant::now(),
            cur: CurFile::new(cur),
            sig_seen: HashSet::new(),
            chunk: H128::new(),
            chunk_n: 0,
            trace: trace.and_then(|(c, p)| std::fs::File::create(p).ok().map(|f| (c, f))),
            family: vec![],
            collect_family: false,
            _w: std::marker::PhantomData,
        }
    }
    fn hist(&self, mut n: u32) -> Vec<Op> {
        let mut v = vec![];
        while n != 0 {
            let nd = self.nodes[n as usize];
            v.push(nd.op);
            n = nd.parent;
        }
        v.reverse();
        v
    }
    fn over(&mut self) -> bool {
        if self.out.capped.is_some() {
            return true;
        }
        if self.out.states >= self.lim.max_states {
            self.out.capped = Some(format!("state cap {}", self.lim.max_states));
            return true;
        }
        if self.t0.elapsed().as_secs_f64() > self.lim.max_secs {
            self.out.capped = Some(format!("time cap {}s", self.lim.max_secs));
            return true;
        }
        false
    }
    fn record_viol(&mut self, v: Viol, history: Vec<Op>) {
        self.out.viol_count += 1;
        let step = history.len();
        let sig = sig_of(&v.kind, &v.msg, history.last().copied());
        if self.sig_seen.insert(sig) && self.out.violations.len() < self.lim.max_viol {
            self.out.violations.push(FoundViol { kind: v.kind, msg: v.msg, history, step });
        }
    }
    /// Fold one execution's outcome into the transcript digest.
    fn transcript(&mut self, hist: &[Op], op: Option<Op>, outcome: u64) {
        let mut h = H128::new();
        for o in hist {
            h.u64(o.k as u64);
            h.u64(o.key as u64);
            h.u64(o.arg);
        }
        if let Some(o) = op {
            h.u64(o.k as u64);
            h.u64(o.key as u64);
            h.u64(o.arg);
        }
        let hh = h.finish64();
        self.chunk.u64(hh);
        self.chunk.u64(outcome);
        let cidx = self.out.chunk_digests.len() as u64;
        if let Some((c, f)) = &mut self.trace {
            if *c == cidx {
                let mut s = String::new();
                for o in hist {
                    s.push_str(&o.to_string());
                    s.push(';');
                }
                if let Some(o) = op {
                    s.push_str(&o.to_string());
                    s.push(';');
                }
                let _ = writeln!(f, "{}\t{:016x}", s, outcome);
            }
        }
        self.chunk_n += 1;
        if self.chunk_n == 1024 {
            self.out.chunk_digests.push(self.chunk.finish64());
            self.chunk = H128::new();
            self.chunk_n = 0;
        }
    }
    fn finish_transcript(&mut self) {
        if self.chunk_n > 0 {
            self.out.chunk_digests.push(self.chunk.finish64());
        }
        let mut h = H128::new();
        for &d in &self.out.chunk_digests {
            h.u64(d);
        }
        self.out.digest = h.finish64();
    }

    /// Replay a trusted history (already explored without violation).
    fn replay(&mut self, hist: &[Op]) -> Result<W, Viol> {
        reset_exec();
        let mut w = W::create(self.cfg)?;
        for &o in hist {
            match w.apply(o) {
                Ok(_) => {}
                Err(v) => {
                    std::mem::forget(w);
                    return Err(Viol::new("machinery", format!("nondeterministic replay: {} now fails with {}: {}", o, v.kind, v.msg)));
                }
            }
            self.out.steps += 1;
        }
        Ok(w)
    }

    /// Execute `hist(node) + op`; on success return the world (audited) for the caller to continue.
    fn step(&mut self, node: u32, op: Op) -> Option<W> {
        let hist = self.hist(node);
        self.cur.put(&hist, Some(op));
        PROGRESS.fetch_add(1, std::sync::atomic::Ordering::Relaxed);
        self.out.executions += 1;
        self.out.transitions += 1;
        let mut w = match self.replay(&hist) {
            Ok(w) => w,
            Err(v) => {
                let mut h = hist.clone();
                h.push(op);
                self.transcript(&hist, Some(op), 0xDEAD);
                self.record_viol(v, h);
                return None;
            }
        };
        let r = w.apply(op).and_then(|obs| w.audit(true).map(|_| obs));
        self.out.steps += 1;
        match r {
            Ok(obs) => {
                let so = w.obs_state();
                self.obs_seen.insert(obs ^ so.rotate_left(17));
                self.transcript(&hist, Some(op), obs ^ so.rotate_left(17));
                Some(w)
            }
            Err(v) => {
                std::mem::forget(w);
                let mut h = H128::new();
                h.str(&sig_of(&v.kind, &v.msg, None));
                self.transcript(&hist, Some(op), h.finish64() | 1);
                let mut hh = hist;
                hh.push(op);
                self.record_viol(v, hh);
                None
            }
        }
    }

    fn add_state(&mut self, parent: u32, op: Op, w: &W, depth: usize) -> Option<u32> {
        let k = w.key128();
        if !self.seen.insert(k) {
            return None;
        }
        self.nodes.push(Node { parent, op });
        self.out.states += 1;
        self.out.phases[w.phase() as usize & 3] += 1;
        if depth > self.out.max_depth {
            self.out.max_depth = depth;
        }
        Some(self.nodes.len() as u32 - 1)
    }

    fn close(&mut self, w: W, hist_for_report: impl FnOnce(&Self) -> Vec<Op>) {
        if let Err(v) = w.finish() {
            let h = hist_for_report(self);
            self.record_viol(v, h);
        }
    }
}

pub fn ctx_of<W: World>(w: &W, concrete: bool, layer: usize, universe: u32) -> AlphaCtx {
    AlphaCtx { classes: w.classes(), next_key: w.next_key(), len: w.len(), cap: w.capacity(), present: w.present(), concrete, layer, universe }
}

pub struct E1Params {
    pub n: usize,
    pub d: usize,
    /// layers < concrete_layers use every concrete key
    pub concrete_layers: usize,
    pub collect_family: bool,
    /// only growth-path states holding at least this many elements are expanded (spot checks of large
    /// states: the path below is walked, with audits, but not branched from)
    pub from: usize,
}

/// E1: every history with at most `d` deviations spliced anywhere into the growth path up to `n`.
pub fn run_e1<W: World>(cfg: &Cfg, p: &E1Params, alpha: &Alphabet, lim: &Limits, cur: Option<&str>, trace: Option<(u64, String)>) -> Outcome {
    let mut ex: Explorer<'_, W> = Explorer::new(cfg, lim, cur, trace);
    ex.collect_family = p.collect_family;
    // layer 0: the default trajectory
    let mut frontier: Vec<u32> = vec![];
    {
        reset_exec();
        ex.out.executions += 1;
        match W::create(cfg) {
            Err(v) => ex.record_viol(v, vec![]),
            Ok(mut w) => {
                let k = w.key128();
                ex.seen.insert(k);
                ex.out.states += 1;
                ex.out.phases[w.phase() as usize & 3] += 1;
                if p.from == 0 {
                    frontier.push(0);
                }
                let mut node = 0u32;
                let mut ok = true;
                while w.len() < p.n {
                    let op = w.default_op();
                    let before = w.len();
                    ex.out.transitions += 1;
                    ex.out.steps += 1;
                    match w.apply(op).and_then(|_| w.audit(true)) {
                        Ok(()) => {}
                        Err(v) => {
                            let mut h = ex.hist(node);
                            h.push(op);
                            ex.record_viol(v, h);
                            ok = false;
                            break;
                        }
                    }
                    match ex.add_state(node, op, &w, 0) {
                        Some(nn) => {
                            node = nn;
                            if w.len() >= p.from {
                                frontier.push(nn);
                            }
                        }
                        None => break,
                    }
                    if w.len() <= before {
                        break; // worlds whose default op cannot grow (single-key universe)
                    }
                }
                if ok {
                    ex.close(w, |e| e.hist(node));
                } else {
                    std::mem::forget(w);
                }
            }
        }
        ex.out.samples.push(ex.hist(*frontier.last().unwrap_or(&0)));
        if ex.collect_family {
            ex.family.extend(frontier.iter().copied());
        }
    }
    ex.out.layers.push((ex.out.states, ex.out.executions));
    'outer: for layer in 0..p.d {
        let mut next: Vec<u32> = vec![];
        let (s0, e0) = (ex.out.states, ex.out.executions);
        let concrete = layer < p.concrete_layers;
        for &node in &frontier {
            if ex.over() {
                break 'outer;
            }
            // the alphabet is resolved on the real state
            let hist = ex.hist(node);
            let ops = match ex.replay(&hist) {
                Ok(w) => {
                    let c = ctx_of(&w, concrete, layer, 0);
                    let ops = alpha(&c);
                    drop(w);
                    ops
                }
                Err(v) => {
                    ex.record_viol(v, hist);
                    continue;
                }
            };
            for op in ops {
                if let Some(mut w) = ex.step(node, op) {
                    match ex.add_state(node, op, &w, layer + 1) {
                        None => {
                            ex.close(w, |e| {
                                let mut h = e.hist(node);
                                h.push(op);
                                h
                            });
                        }
                        Some(mut cur) => {
                            next.push(cur);
                            if ex.collect_family {
                                ex.family.push(cur);
                            }
                            if ex.out.samples.len() < 6 + layer * 4 && (ex.out.states % 97 == 1) {
                                let hh = ex.hist(cur);
                                ex.out.samples.push(hh);
                            }
                            // continue the default trajectory
                            let mut ok = true;
                            while w.len() < p.n {
                                let dop = w.default_op();
                                let before = w.len();
                                ex.out.transitions += 1;
                                ex.out.steps += 1;
                                if let Err(v) = w.apply(dop).and_then(|_| w.audit(false)) {
                                    let mut h = ex.hist(cur);
                                    h.push(dop);
                                    ex.record_viol(v, h);
                                    ok = false;
                                    break;
                                }
                                match ex.add_state(cur, dop, &w, layer + 1) {
                                    Some(nn) => {
                                        cur = nn;
                                        next.push(nn);
                                    }
                                    None => break,
                                }
                                if w.len() <= before {
                                    break;
                                }
                            }
                            if ok {
                                if let Err(v) = w.audit(true) {
                                    let h = ex.hist(cur);
                                    ex.record_viol(v, h);
                                    std::mem::forget(w);
                                } else {
                                    ex.close(w, |e| e.hist(cur));
                                }
                            } else {
                                std::mem::forget(w);
                            }
                        }
                    }
                }
            }
        }
        ex.out.layers.push((ex.out.states - s0, ex.out.executions - e0));
        frontier = next;
        if frontier.is_empty() {
            break;
        }
    }
    ex.finish_transcript();
    ex.out.distinct_obs = ex.obs_seen.len() as u64;
    ex.out.wall_s = ex.t0.elapsed().as_secs_f64();
    let fam = std::mem::take(&mut ex.family);
    ex.out.family = fam.iter().map(|&n| ex.hist(n)).collect();
    ex.out
}

pub struct E2Params {
    pub universe: u32,
    pub max_depth: usize,
}

/// E2: breadth-first closure over every op on every key of a tiny universe, until no new state.
pub fn run_e2<W: World>(cfg: &Cfg, p: &E2Params, alpha: &Alphabet, lim: &Limits, cur: Option<&str>, trace: Option<(u64, String)>) -> Outcome {
    let mut ex: Explorer<'_, W> = Explorer::new(cfg, lim, cur, trace);
    let mut frontier: Vec<u32> = vec![];
    reset_exec();
    match W::create(cfg) {
        Err(v) => ex.record_viol(v, vec![]),
        Ok(w) => {
            ex.seen.insert(w.key128());
            ex.out.states += 1;
            ex.out.phases[w.phase() as usize & 3] += 1;
            frontier.push(0);
            ex.close(w, |_| vec![]);
        }
    }
    ex.out.layers.push((1, 1));
    let mut depth = 0;
    'outer: while !frontier.is_empty() && depth < p.max_depth {
        depth += 1;
        let mut next = vec![];
        let (s0, e0) = (ex.out.states, ex.out.executions);
        for &node in &frontier {
            if ex.over() {
                break 'outer;
            }
            let hist = ex.hist(node);
            let ops = match ex.replay(&hist) {
                Ok(w) => {
                    let c = ctx_of(&w, true, depth - 1, p.universe);
                    let ops = alpha(&c);
                    drop(w);
                    ops
                }
                Err(v) => {
                    ex.record_viol(v, hist);
                    continue;
                }
            };
            for op in ops {
                if let Some(w) = ex.step(node, op) {
                    if crate::alpha::is_probe(op) {
                        ex.close(w, |e| {
                            let mut h = e.hist(node);
                            h.push(op);
                            h
                        });
                        continue;
                    }
                    if let Some(nn) = ex.add_state(node, op, &w, depth) {
                        next.push(nn);
                        if ex.out.samples.len() < 8 && ex.out.states % 211 == 1 {
                            let hh = ex.hist(nn);
                            ex.out.samples.push(hh);
                        }
                    }
                    ex.close(w, |e| {
                        let mut h = e.hist(node);
                        h.push(op);
                        h
                    });
                }
            }
        }
        ex.out.layers.push((ex.out.states - s0, ex.out.executions - e0));
        frontier = next;
    }
    if frontier.is_empty() && ex.out.capped.is_none() {
        ex.out.fixpoint = true;
    } else if ex.out.capped.is_none() {
        ex.out.capped = Some(format!("depth cap {}", p.max_depth));
    }
    if ex.out.samples.is_empty() {
        if let Some(&n) = frontier.first() {
            let h = ex.hist(n);
            ex.out.samples.push(h);
        } else if ex.nodes.len() > 1 {
            let h = ex.hist(ex.nodes.len() as u32 - 1);
            ex.out.samples.push(h);
        }
    }
    ex.finish_transcript();
    ex.out.distinct_obs = ex.obs_seen.len() as u64;
    ex.out.wall_s = ex.t0.elapsed().as_secs_f64();
    ex.out
}

/// Replay a single history with full audits after every step, printing what happens.
pub fn replay_verbose<W: World>(cfg: &Cfg, hist: &[Op], quiet: bool) -> Result<(), (usize, Viol)> {
    reset_exec();
    let mut w = W::create(cfg).map_err(|v| (0, v))?;
    for (i, &o) in hist.iter().enumerate() {
        match w.apply(o).and_then(|obs| w.audit(true).map(|_| obs)) {
            Ok(obs) => {
                if !quiet {
                    println!("  step {:3} {:<40} ok  len={} cap={} obs={:08x}", i, o.to_string(), w.len(), w.capacity(), obs as u32);
                }
            }
            Err(v) => {
                if !quiet {
                    println!("  step {:3} {:<40} VIOLATION {}: {}", i, o.to_string(), v.kind, v.msg);
                }
                std::mem::forget(w);
                return Err((i, v));
            }
        }
    }
    w.finish().map_err(|v| (hist.len(), v))
}

/// Per-step observation digests of a history (for the profile differential).
pub fn transcript_of<W: World>(cfg: &Cfg, hist: &[Op]) -> String {
    reset_exec();
    let mut w = match W::create(cfg) {
        Ok(w) => w,
        Err(v) => return format!("create: {}", sig_of(&v.kind, &v.msg, None)),
    };
    let mut h = H128::new();
    for (i, &o) in hist.iter().enumerate() {
        match w.apply(o).and_then(|obs| w.audit(true).map(|_| obs)) {
            Ok(obs) => {
                h.u64(obs);
                h.u64(w.obs_state());
            }
            Err(v) => {
                std::mem::forget(w);
                return format!("{:016x} then step {}: {}", h.finish64(), i, sig_of(&v.kind, &v.msg, None));
            }
        }
    }
    let r = format!("{:016x} len={} cap={}", h.finish64(), w.len(), w.capacity());
    drop(w);
    r
}
