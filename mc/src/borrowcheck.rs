//! Lookups through a *borrowed form* of the key that is unsized and whose `Eq` / `Hash` normalise
//! (`PathBuf` keys queried as `&Path`): "k/7", "k//7", "k/./7" and "k/7/" are one key, spelled with
//! different byte lengths.  The probe builds a mirror collection holding the world's current
//! elements under `PathBuf` keys (so it passes through every resize phase as the world grows) and
//! requires every read / removal path to treat all spellings alike, and to hand back the *stored*
//! spelling.

use crate::hasher::HB;
use crate::op::{VResult, Viol};
use crate::vbail;
use griddle::hash_map::RawEntryMut;
use std::collections::BTreeMap;
use std::path::{Path, PathBuf};

fn stored(i: u32) -> String {
    format!("k/{}", i)
}
fn spellings(i: u32) -> [String; 4] {
    [format!("k/{}", i), format!("k//{}", i), format!("k/./{}", i), format!("k/{}/", i)]
}

pub fn map_probe(r: &BTreeMap<u32, u32>, hk: u8, seed: u64) -> VResult<u64> {
    let mut m: griddle::HashMap<PathBuf, u32, HB> = griddle::HashMap::with_hasher(HB::new(hk, seed));
    for (&k, &v) in r {
        m.insert(PathBuf::from(stored(k)), v);
    }
    let top = r.keys().next_back().map_or(0, |k| k + 1);
    for (&k, &v) in r {
        let want_key = stored(k);
        for s in spellings(k) {
            let q: &Path = Path::new(&s);
            if m.get(q) != Some(&v) {
                vbail!("mismatch", "borrowed lookup: get({:?}) = {:?}, the map holds {:?} -> {}", s, m.get(q), want_key, v);
            }
            match m.get_key_value(q) {
                Some((kk, vv)) if kk.as_os_str() == want_key.as_str() && *vv == v => {}
                o => vbail!("mismatch", "borrowed lookup: get_key_value({:?}) = {:?}, the map holds {:?} -> {}", s, o, want_key, v),
            }
            if !m.contains_key(q) || m.get_mut(q).map(|x| *x) != Some(v) || m.get_key_value_mut(q).map(|(a, b)| (a.as_os_str() == want_key.as_str(), *b)) != Some((true, v)) {
                vbail!("mismatch", "borrowed lookup: contains_key / get_mut / get_key_value_mut({:?}) miss {:?}", s, want_key);
            }
            let ix = crate::util::catch(|| m[q]);
            if ix != Ok(v) {
                vbail!("mismatch", "borrowed lookup: map[{:?}] = {:?}, expected {}", s, ix, v);
            }
            if m.raw_entry().from_key(q).map(|(a, b)| (a.as_os_str() == want_key.as_str(), *b)) != Some((true, v)) {
                vbail!("mismatch", "borrowed lookup: raw_entry().from_key({:?}) misses {:?}", s, want_key);
            }
            match m.raw_entry_mut().from_key(q) {
                RawEntryMut::Occupied(e) if e.key().as_os_str() == want_key.as_str() && *e.get() == v => {}
                _ => vbail!("mismatch", "borrowed lookup: raw_entry_mut().from_key({:?}) is vacant or holds the wrong element", s),
            }
        }
    }
    for s in spellings(top + 3) {
        let q: &Path = Path::new(&s);
        if m.get(q).is_some() || m.contains_key(q) || m.get_key_value(q).is_some() || m.raw_entry().from_key(q).is_some() {
            vbail!("mismatch", "borrowed lookup finds the absent key {:?}", s);
        }
    }
    // removal through every spelling in turn (remove / remove_entry alternate)
    let mut left = r.len();
    for (j, (&k, &v)) in r.iter().enumerate() {
        let s = &spellings(k)[j % 4];
        let q: &Path = Path::new(s);
        let ok = if j % 2 == 0 { m.remove(q) == Some(v) } else { m.remove_entry(q).map(|(a, b)| (a.as_os_str() == stored(k).as_str(), b)) == Some((true, v)) };
        left -= 1;
        if !ok || m.len() != left || m.contains_key(q) {
            vbail!("mismatch", "borrowed removal: remove({:?}) did not remove {:?} (len {} expected {})", s, stored(k), m.len(), left);
        }
    }
    if !m.is_empty() {
        return Err(Viol::new("mismatch", "borrowed removal left elements behind"));
    }
    Ok(r.len() as u64)
}

pub fn set_probe(ids: &[u32], hk: u8, seed: u64) -> VResult<u64> {
    let mut s: griddle::HashSet<PathBuf, HB> = griddle::HashSet::with_hasher(HB::new(hk, seed));
    for &k in ids {
        s.insert(PathBuf::from(stored(k)));
    }
    let top = ids.iter().max().map_or(0, |k| k + 1);
    for &k in ids {
        let want = stored(k);
        for sp in spellings(k) {
            let q: &Path = Path::new(&sp);
            if !s.contains(q) || s.get(q).map(|x| x.as_os_str() == want.as_str()) != Some(true) {
                vbail!("mismatch", "borrowed lookup: set.contains / get({:?}) miss {:?}", sp, want);
            }
            let n = s.len();
            let got = s.get_or_insert_owned(q).as_os_str() == want.as_str();
            if !got || s.len() != n {
                vbail!("mismatch", "borrowed lookup: get_or_insert_owned({:?}) did not return the stored {:?} (len {} -> {})", sp, want, n, s.len());
            }
            let got = s.get_or_insert_with(q, |p| p.to_path_buf()).as_os_str() == want.as_str();
            if !got || s.len() != n {
                vbail!("mismatch", "borrowed lookup: get_or_insert_with({:?}) did not return the stored {:?} (len {} -> {})", sp, want, n, s.len());
            }
        }
    }
    for sp in spellings(top + 3) {
        if s.contains(Path::new(&sp)) || s.get(Path::new(&sp)).is_some() {
            vbail!("mismatch", "borrowed lookup finds the absent element {:?}", sp);
        }
    }
    let mut left = ids.len();
    for (j, &k) in ids.iter().enumerate() {
        let sp = &spellings(k)[(j + 1) % 4];
        let q: &Path = Path::new(sp);
        let ok = if j % 2 == 0 { s.remove(q) } else { s.take(q).map(|x| x.as_os_str() == stored(k).as_str()) == Some(true) };
        left -= 1;
        if !ok || s.len() != left || s.contains(q) {
            vbail!("mismatch", "borrowed removal: set remove / take({:?}) did not remove {:?}", sp, stored(k));
        }
    }
    Ok(ids.len() as u64)
}
