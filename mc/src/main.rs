use gmc::orch;
use gmc::plan;
use gmc::shard::{self, ShardSpec};
use gmc::util;
use std::time::{Duration, Instant};

fn watchdog() {
    let secs: u64 = std::env::var("GMC_HANG_SECS").ok().and_then(|s| s.parse().ok()).unwrap_or(30);
    std::thread::spawn(move || {
        let mut last = u64::MAX;
        loop {
            std::thread::sleep(Duration::from_secs(secs));
            let p = gmc::engine::PROGRESS.load(std::sync::atomic::Ordering::Relaxed);
            if p == last {
                eprintln!("watchdog: no progress for {}s", secs);
                std::process::exit(97);
            }
            last = p;
        }
    });
}

fn main() {
    util::install_panic_hook();
    let args: Vec<String> = std::env::args().collect();
    let cmd = args.get(1).map(|s| s.as_str()).unwrap_or("");
    match cmd {
        "shard" => {
            let spec: ShardSpec = serde_json::from_str(&std::fs::read_to_string(&args[2]).expect("spec file")).expect("spec json");
            watchdog();
            let trace = spec.trace_chunk.map(|c| (c, format!("{}.trace", args[3])));
            let res = plan::run_any_shard(&spec, args.get(4).map(|s| s.as_str()), trace);
            std::fs::write(&args[3], serde_json::to_string(&res).unwrap()).expect("write result");
        }
        "check" => {
            let prop = args.get(2).expect("property id");
            let tier = args.get(3).map(|s| s.as_str()).unwrap_or("quick");
            let t0 = Instant::now();
            let code = plan::check(prop, tier, t0);
            std::process::exit(code);
        }
        "replay" => {
            let doc: serde_json::Value = serde_json::from_str(&std::fs::read_to_string(&args[2]).expect("replay file")).expect("replay json");
            let spec: ShardSpec = serde_json::from_value(doc["spec"].clone()).expect("spec");
            let hist: Vec<String> = serde_json::from_value(doc["history"].clone()).expect("history");
            let quiet = args.iter().any(|a| a == "--quiet");
            if doc["kind"] == "diff" {
                // profile differential: run the history in the chk and the rel binary and compare
                let mut outs = vec![];
                for prof in ["chk", "rel"] {
                    let o = std::process::Command::new(orch::bin_for(prof)).arg("outcome").arg(&args[2]).output().expect("run outcome");
                    outs.push(String::from_utf8_lossy(&o.stdout).trim().to_string());
                }
                println!("chk: {}\nrel: {}", outs[0], outs[1]);
                if outs[0] != outs[1] {
                    println!("replay: outcomes differ between build profiles");
                    println!("SIG {}", doc["signature"].as_str().unwrap_or(""));
                    std::process::exit(1);
                }
                println!("replay: no violation");
                std::process::exit(0);
            }
            // if we are not the binary for the spec's profile, re-exec the right one
            let want = orch::bin_for(&spec.profile);
            let me = std::env::current_exe().ok();
            if me.as_deref() != Some(want.as_path()) && want.exists() && std::env::var("GMC_NO_REEXEC").is_err() {
                let st = std::process::Command::new(&want).args(&args[1..]).env("GMC_NO_REEXEC", "1").env("ASAN_OPTIONS", "detect_leaks=0:abort_on_error=0:exitcode=98:allocator_may_return_null=1:detect_stack_use_after_scope=0").status().expect("re-exec");
                std::process::exit(st.code().unwrap_or(98));
            }
            watchdog();
            if !quiet {
                println!("replaying {} ops on shard {}", hist.len(), spec.label());
            }
            let code = plan::replay_any(&spec, &hist, quiet);
            std::process::exit(code);
        }
        "outcome" => {
            let doc: serde_json::Value = serde_json::from_str(&std::fs::read_to_string(&args[2]).expect("replay file")).expect("replay json");
            let spec: ShardSpec = serde_json::from_value(doc["spec"].clone()).expect("spec");
            let hist: Vec<String> = serde_json::from_value(doc["history"].clone()).expect("history");
            watchdog();
            // full per-step observation transcript
            let ops = shard::strings_to_ops(&hist).expect("ops");
            println!("OUTCOME {} | {}", plan::outcome_of(&spec, &hist), plan::transcript_of(&spec, &ops));
        }
        "selftest" => {
            // determinism: the same shard twice must give identical digests and counts
            let mut ok = true;
            for (ty, u) in [("u32", 3u32), ("tk", 2), ("zst", 1)] {
                let spec = plan::e2("SELFTEST", ty, 0, "look1+mut+ch0+shape2", &["cursor"], u, "chk", 60.0);
                let a = shard::run_shard(&spec, None, None);
                let b = shard::run_shard(&spec, None, None);
                let same = a.digest == b.digest && a.states == b.states && a.transitions == b.transitions && a.distinct_obs == b.distinct_obs;
                println!("selftest {}: states={} transitions={} digest={:016x} fixpoint={} violations={} deterministic={}", ty, a.states, a.transitions, a.digest, a.fixpoint, a.viol_count, same);
                ok &= same && a.fixpoint;
            }
            let spec = plan::e1("SELFTEST", "u32", 1, 0, "look1+mut+ch0+shape", &["c02", "c03", "cursor"], 20, 1, 1, "chk", 60.0);
            let a = shard::run_shard(&spec, None, None);
            let b = shard::run_shard(&spec, None, None);
            let same = a.digest == b.digest && a.states == b.states;
            println!("selftest e1: states={} transitions={} digest={:016x} violations={} deterministic={}", a.states, a.transitions, a.digest, a.viol_count, same);
            ok &= same;
            std::process::exit(if ok { 0 } else { 2 });
        }
        "hist" => {
            // debugging aid: replay an inline history "Op(k,a);Op(k,a);..." on an inline spec
            let spec: ShardSpec = serde_json::from_str(&args[2]).expect("spec json");
            let hist: Vec<String> = args[3].split(';').filter(|s| !s.is_empty()).map(|s| s.to_string()).collect();
            std::process::exit(plan::replay_any(&spec, &hist, false));
        }
        "one" => {
            // debugging aid: run one shard spec given inline as JSON, print the result
            let spec: ShardSpec = serde_json::from_str(&args[2]).expect("spec json");
            let res = plan::run_any_shard(&spec, None, None);
            println!("{}", serde_json::to_string_pretty(&res).unwrap());
        }
        _ => {
            eprintln!("usage: gmc check <C01..C17> <quick|thorough> | gmc replay <file> [--quiet] | gmc shard <spec> <out> <cur>");
            std::process::exit(2);
        }
    }
}
