//! Counting global allocator.
//!
//! Observes *number / size / liveness* of allocations only, never addresses (they are used as
//! opaque identities for liveness).  All state is thread-local and const-initialised, so the
//! allocator itself never allocates.
//!
//! * A **window** is opened around a subject call (`window(|| map.insert(..))`).  Allocations made
//!   inside a window and outside a `harness` guard are attributed to the map ("table
//!   allocations").
//! * Table allocations stay in a small live set until freed (whenever that happens), so
//!   `live_tables()` is the number of backing tables the map(s) of this thread own right now.

use std::alloc::{GlobalAlloc, Layout, System};
use std::cell::Cell;

pub struct Counting;

const SLOTS: usize = 1024;

thread_local! {
    static WINDOW: Cell<u32> = const { Cell::new(0) };
    static HARNESS: Cell<u32> = const { Cell::new(0) };
    static TRACK_OUTSIDE: Cell<bool> = const { Cell::new(false) };
    static N_ALLOC: Cell<u64> = const { Cell::new(0) };
    static N_FREE: Cell<u64> = const { Cell::new(0) };
    static BYTES: Cell<u64> = const { Cell::new(0) };
    static LIVE: Cell<[(usize, usize); SLOTS]> = const { Cell::new([(0, 0); SLOTS]) };
    static LIVE_N: Cell<usize> = const { Cell::new(0) };
    static OVERFLOW: Cell<bool> = const { Cell::new(false) };
    /// Environment deviation: inside subject calls, allocations larger than this many bytes fail (0 = off).
    static FAIL_ABOVE: Cell<usize> = const { Cell::new(0) };
}

unsafe impl GlobalAlloc for Counting {
    unsafe fn alloc(&self, l: Layout) -> *mut u8 {
        if let Ok(true) = FAIL_ABOVE.try_with(|f| f.get() != 0 && l.size() > f.get()) {
            if in_subject() {
                return std::ptr::null_mut();
            }
        }
        let p = System.alloc(l);
        // try_with: thread teardown
        let _ = WINDOW.try_with(|w| {
            if (w.get() > 0 || TRACK_OUTSIDE.with(|t| t.get())) && HARNESS.with(|h| h.get()) == 0 && !p.is_null() {
                N_ALLOC.with(|c| c.set(c.get() + 1));
                BYTES.with(|c| c.set(c.get() + l.size() as u64));
                LIVE.with(|live| {
                    // in-place access: the array is only touched from this thread, never re-entrantly
                    let a = &mut *live.as_ptr();
                    let n = LIVE_N.with(|n| n.get());
                    if n < SLOTS {
                        a[n] = (p as usize, l.size());
                        LIVE_N.with(|c| c.set(n + 1));
                    } else {
                        OVERFLOW.with(|o| o.set(true));
                    }
                });
            }
        });
        p
    }
    unsafe fn dealloc(&self, p: *mut u8, l: Layout) {
        let _ = LIVE_N.try_with(|cn| {
            let n = cn.get();
            if n > 0 {
                LIVE.with(|live| {
                    let a = &mut *live.as_ptr();
                    for i in 0..n {
                        if a[i].0 == p as usize {
                            a[i] = a[n - 1];
                            a[n - 1] = (0, 0);
                            cn.set(n - 1);
                            N_FREE.with(|c| c.set(c.get() + 1));
                            break;
                        }
                    }
                });
            }
        });
        System.dealloc(p, l)
    }
    unsafe fn realloc(&self, p: *mut u8, l: Layout, new_size: usize) -> *mut u8 {
        // hashbrown never reallocs; harness Vecs do, outside windows or inside harness guards.
        let q = System.realloc(p, l, new_size);
        let _ = LIVE_N.try_with(|cn| {
            let n = cn.get();
            if n > 0 && !q.is_null() {
                LIVE.with(|live| {
                    let a = &mut *live.as_ptr();
                    for i in 0..n {
                        if a[i].0 == p as usize {
                            a[i] = (q as usize, new_size);
                            break;
                        }
                    }
                });
            }
        });
        q
    }
}

/// Run a subject call inside an attribution window.
#[inline]
pub fn window<R>(f: impl FnOnce() -> R) -> R {
    struct G;
    impl Drop for G {
        fn drop(&mut self) {
            WINDOW.with(|w| w.set(w.get() - 1));
        }
    }
    WINDOW.with(|w| w.set(w.get() + 1));
    let _g = G;
    f()
}

/// Run harness code (callbacks, element constructors) whose allocations are not the map's.
#[inline]
pub fn harness<R>(f: impl FnOnce() -> R) -> R {
    struct G;
    impl Drop for G {
        fn drop(&mut self) {
            HARNESS.with(|w| w.set(w.get() - 1));
        }
    }
    HARNESS.with(|w| w.set(w.get() + 1));
    let _g = G;
    f()
}

/// Number of table allocations attributed so far (monotone).
/// Inside a subject call (an attribution window) and not inside a harness guard.
pub fn in_subject() -> bool {
    WINDOW.with(|w| w.get()) > 0 && HARNESS.with(|h| h.get()) == 0
}
/// Make allocations above `bytes` fail inside subject calls (0 switches it off again).
pub fn fail_above(bytes: usize) {
    FAIL_ABOVE.with(|f| f.set(bytes));
}
/// Size of the largest live table allocation of this thread.
pub fn live_max_bytes() -> usize {
    let n = LIVE_N.with(|c| c.get());
    LIVE.with(|live| unsafe { (&(*live.as_ptr()))[..n].iter().map(|e| e.1).max().unwrap_or(0) })
}
pub fn allocs() -> u64 {
    N_ALLOC.with(|c| c.get())
}
pub fn frees() -> u64 {
    N_FREE.with(|c| c.get())
}
/// Table allocations currently live on this thread.
pub fn live_tables() -> usize {
    LIVE_N.with(|c| c.get())
}
pub fn live_bytes() -> usize {
    let n = LIVE_N.with(|c| c.get());
    LIVE.with(|l| unsafe { (&*l.as_ptr())[..n].iter().map(|x| x.1).sum() })
}
pub fn overflowed() -> bool {
    OVERFLOW.with(|c| c.get())
}
/// Forget everything (start of an execution).  Live entries of leaked worlds are dropped too.
pub fn reset() {
    N_ALLOC.with(|c| c.set(0));
    N_FREE.with(|c| c.set(0));
    BYTES.with(|c| c.set(0));
    LIVE_N.with(|c| c.set(0));
    OVERFLOW.with(|c| c.set(false));
}
