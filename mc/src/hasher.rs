//! Deterministic hashers, invocation counters and panic fuses for user callbacks.

use std::cell::Cell;
use std::hash::{BuildHasher, Hasher};

/// Callback kinds that can be counted / made to panic.
#[derive(Clone, Copy, Debug, PartialEq, Eq, PartialOrd, Ord, Hash)]
#[repr(usize)]
pub enum Cb {
    Hash = 0,
    Eq = 1,
    CloneK = 2,
    CloneV = 3,
    CloneS = 4,
    Closure = 5,
    /// the destructor of a (ledgered) element
    Drop = 6,
}
pub const CB_ALL: [Cb; 7] = [Cb::Hash, Cb::Eq, Cb::CloneK, Cb::CloneV, Cb::CloneS, Cb::Closure, Cb::Drop];
pub const CB_NAMES: [&str; 7] = ["Hash", "Eq", "CloneK", "CloneV", "CloneS", "Closure", "Drop"];

thread_local! {
    static CNT: Cell<[u64; 7]> = const { Cell::new([0; 7]) };
    static TRIP: Cell<[u64; 7]> = const { Cell::new([0; 7]) };
    /// logical key ids of the last hash computations (ring)
    static HLOG: Cell<[u32; 16]> = const { Cell::new([u32::MAX; 16]) };
    static HLOG_N: Cell<usize> = const { Cell::new(0) };
    static DEFAULT_HB: Cell<(u8, u64)> = const { Cell::new((0, 1)) };
}

pub const FUSE_MSG: &str = "FUSE";

thread_local! {
    /// (logical key, closure decided to remove it) for every element handed to a user closure
    static CBLOG: std::cell::RefCell<Vec<(u32, bool)>> = const { std::cell::RefCell::new(Vec::new()) };
}
/// Note an element handed to a user closure (before the closure's fuse may fire).
pub fn cb_note(key: u32, removes: bool) {
    crate::alloc::harness(|| CBLOG.with(|l| l.borrow_mut().push((key, removes))));
}
pub fn cb_log() -> Vec<(u32, bool)> {
    CBLOG.with(|l| l.borrow().clone())
}

/// Count one invocation of callback `k`; panic if its fuse trips now.
#[inline]
pub fn tick(k: Cb) {
    let i = k as usize;
    let mut c = CNT.with(|c| c.get());
    c[i] += 1;
    CNT.with(|x| x.set(c));
    let t = TRIP.with(|t| t.get())[i];
    if t != 0 && c[i] == t {
        // disarm first: a fuse fires once
        let mut tt = TRIP.with(|t| t.get());
        tt[i] = 0;
        TRIP.with(|t| t.set(tt));
        panic!("{}:{}", FUSE_MSG, CB_NAMES[i]);
    }
}
pub fn counts() -> [u64; 7] {
    CNT.with(|c| c.get())
}
pub fn reset_counts() {
    crate::alloc::harness(|| CBLOG.with(|l| l.borrow_mut().clear()));
    CNT.with(|c| c.set([0; 7]));
    HLOG_N.with(|c| c.set(0));
}
/// Start a new hash log (beginning of a subject call).
#[inline]
pub fn hlog_mark() {
    HLOG_N.with(|c| c.set(0));
}
/// Arm: panic on the `n`-th invocation (counted from the last `reset_counts`) of `k`.
pub fn arm(k: Cb, n: u64) {
    let mut t = [0u64; 7];
    t[k as usize] = n;
    TRIP.with(|x| x.set(t));
}
pub fn disarm() {
    TRIP.with(|x| x.set([0; 7]));
}
pub fn armed() -> bool {
    TRIP.with(|x| x.get().iter().any(|&v| v != 0))
}
/// Keys hashed since the last `reset_counts` (at most the last 16).
pub fn hash_log() -> Vec<u32> {
    let n = HLOG_N.with(|c| c.get());
    let a = HLOG.with(|c| c.get());
    (0..n.min(16)).map(|i| a[i]).collect()
}
pub fn hash_log_count(key: u32) -> usize {
    let n = HLOG_N.with(|c| c.get()).min(16);
    let a = HLOG.with(|c| c.get());
    a[..n].iter().filter(|&&k| k == key).count()
}

pub const H_GOOD: u8 = 0;
pub const H_LOW: u8 = 1;
pub const H_CONST: u8 = 2;
pub const H_TAG: u8 = 3;
pub const H_NAMES: [&str; 4] = ["HGood", "HLow", "HConst", "HTag"];

/// Deterministic `BuildHasher` with explicit internal state.
#[derive(Debug, PartialEq, Eq)]
pub struct HB {
    pub kind: u8,
    pub seed: u64,
}
impl Clone for HB {
    fn clone(&self) -> Self {
        tick(Cb::CloneS);
        HB { kind: self.kind, seed: self.seed }
    }
}
impl HB {
    pub fn new(kind: u8, seed: u64) -> Self {
        HB { kind, seed }
    }
    /// The hash of logical key id `v` (what a map using this builder computes).
    pub fn hash_of(&self, v: u64) -> u64 {
        mix(self.kind, self.seed, v)
    }
}
/// `S::default()` is used by `FromIterator`/serde; what it returns is set per thread.
pub fn set_default_hb(kind: u8, seed: u64) {
    DEFAULT_HB.with(|c| c.set((kind, seed)));
}
impl Default for HB {
    fn default() -> Self {
        let (kind, seed) = DEFAULT_HB.with(|c| c.get());
        HB { kind, seed }
    }
}

#[inline]
fn splitmix(mut z: u64) -> u64 {
    z = z.wrapping_add(0x9E3779B97F4A7C15);
    z = (z ^ (z >> 30)).wrapping_mul(0xBF58476D1CE4E5B9);
    z = (z ^ (z >> 27)).wrapping_mul(0x94D049BB133111EB);
    z ^ (z >> 31)
}
#[inline]
fn mix(kind: u8, seed: u64, v: u64) -> u64 {
    match kind {
        H_GOOD => splitmix(v ^ seed.wrapping_mul(0xA24BAED4963EE407)),
        // four distinct hash values; low entropy in position bits and in the 7 tag bits
        H_LOW => ((v.wrapping_add(seed)) % 4).wrapping_mul(0x0101_0101_0101_0101),
        // fully colliding
        H_CONST => seed.wrapping_mul(0x0101_0101_0101_0101),
        // same tag (top 7 bits zero) for every key, well-distributed position bits
        _ => splitmix(v ^ seed.wrapping_mul(0xA24BAED4963EE407)) & 0x00FF_FFFF_FFFF_FFFF,
    }
}

pub struct HH {
    kind: u8,
    seed: u64,
    v: u64,
}
impl BuildHasher for HB {
    type Hasher = HH;
    #[inline]
    fn build_hasher(&self) -> HH {
        HH { kind: self.kind, seed: self.seed, v: 0 }
    }
}
impl Hasher for HH {
    #[inline]
    fn finish(&self) -> u64 {
        // one hash computation = one finish()
        let n = HLOG_N.with(|c| c.get());
        if n < 16 {
            let mut a = HLOG.with(|c| c.get());
            a[n] = self.v as u32;
            HLOG.with(|c| c.set(a));
        }
        HLOG_N.with(|c| c.set(n + 1));
        tick(Cb::Hash);
        mix(self.kind, self.seed, self.v)
    }
    fn write(&mut self, b: &[u8]) {
        for &x in b {
            self.v = (self.v << 8) | x as u64;
        }
    }
    #[inline]
    fn write_u32(&mut self, x: u32) {
        self.v = x as u64;
    }
}
