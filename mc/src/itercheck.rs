//! C08: read-only iterator checks on a map / set state.

use crate::alloc::harness;
use crate::elem::El;
use crate::mapworld::MapWorld;
use crate::op::{VResult, Viol};
use crate::vbail;

pub const IK_ITER: u64 = 0;
pub const IK_ITER_MUT: u64 = 1;
pub const IK_KEYS: u64 = 2;
pub const IK_VALUES: u64 = 3;
pub const IK_VALUES_MUT: u64 = 4;
pub const IK_REF_INTO: u64 = 5;
pub const IK_MUT_INTO: u64 = 6;
pub const IK_KEYS_ZIP_VALUES: u64 = 7;
pub const IK_COUNT: u64 = 8;
pub const IK_NAMES: [&str; 8] = ["iter", "iter_mut", "keys", "values", "values_mut", "&map.into_iter", "&mut map.into_iter", "keys.zip(values)"];

/// Walk an exact-size iterator to the end, checking `len()`/`size_hint()` before every `next()`
/// and that `None` is returned forever after exhaustion.  Returns the items.
pub fn walk<I, X>(mut it: I, expect: usize, what: &str) -> VResult<Vec<X>>
where
    I: Iterator<Item = X> + ExactSizeIterator,
{
    let mut out = harness(|| Vec::with_capacity(expect + 1));
    let mut n = 0usize;
    loop {
        let (lo, hi) = it.size_hint();
        let want = expect.saturating_sub(n);
        if n <= expect && (lo != want || hi != Some(want) || it.len() != want) {
            vbail!("mismatch", "{}: size_hint {:?} / len {} after {} of {} items", what, (lo, hi), it.len(), n, expect);
        }
        match it.next() {
            Some(x) => {
                harness(|| out.push(x));
                n += 1;
                if n > expect + 2 {
                    vbail!("mismatch", "{}: yields more than {} items", what, expect);
                }
            }
            None => break,
        }
    }
    for _ in 0..3 {
        if it.next().is_some() {
            vbail!("mismatch", "{}: yields an item after returning None", what);
        }
    }
    if n != expect {
        vbail!("mismatch", "{}: yielded {} items, expected {}", what, n, expect);
    }
    Ok(out)
}

pub fn same_multiset(mut got: Vec<(u32, u32)>, want: &[(u32, u32)], what: &str) -> VResult<()> {
    got.sort();
    if got != want {
        return Err(Viol::new("mismatch", format!("{}: yields {:?}, elements are {:?}", what, got, want)));
    }
    Ok(())
}

/// The provided `Iterator` methods a collection may override (`fold` - which `for_each`, `sum`, `max`,
/// `extend(iter)` and `collect` into a collection go through - `count`, `last`, `nth`) must agree with
/// element-wise `next()`: same multiset, same number, and the right remainder after `nth`.
#[macro_export]
macro_rules! provided {
    ($mk:expr, $idf:expr, $want:expr, $name:expr) => {{
        let want: &[(u32, u32)] = $want;
        let n = want.len();
        let got: Vec<(u32, u32)> = $mk.fold($crate::alloc::harness(|| Vec::with_capacity(n + 1)), |mut v, x| {
            $crate::alloc::harness(|| v.push($idf(x)));
            v
        });
        $crate::itercheck::same_multiset(got, want, &format!("{}.fold", $name))?;
        let c = $mk.count();
        if c != n {
            $crate::vbail!("mismatch", "{}.count() = {}, the collection holds {}", $name, c, n);
        }
        let l = $mk.last().map($idf);
        if l.is_some() != (n > 0) || l.map_or(false, |e| !want.contains(&e)) {
            $crate::vbail!("mismatch", "{}.last() = {:?} with {} elements", $name, l, n);
        }
        for p in [0, n / 2, n.saturating_sub(1), n, usize::MAX - 1, usize::MAX] {
            let mut it = $mk;
            let x = it.nth(p).map($idf);
            if x.is_some() != (p < n) {
                $crate::vbail!("mismatch", "{}.nth({}) = {:?} with {} elements", $name, p, x, n);
            }
            let rest = it.len();
            if rest != n.saturating_sub(p.saturating_add(1)) {
                $crate::vbail!("mismatch", "{}: len() = {} after nth({}) of {}", $name, rest, p, n);
            }
            let tail: Vec<(u32, u32)> = $crate::alloc::harness(|| it.map($idf).collect());
            if tail.len() != rest || x.map_or(false, |e| tail.contains(&e) && want.iter().filter(|w| **w == e).count() == 1) {
                $crate::vbail!("mismatch", "{}: after nth({}) = {:?} the rest is {:?}", $name, p, x, tail);
            }
        }
        // a prefix by next(), the rest by fold
        let mut it = $mk;
        let mut all: Vec<(u32, u32)> = $crate::alloc::harness(|| Vec::with_capacity(n + 1));
        for _ in 0..n / 2 {
            match it.next() {
                Some(x) => $crate::alloc::harness(|| all.push($idf(x))),
                None => $crate::vbail!("mismatch", "{} ended early", $name),
            }
        }
        let all = it.fold(all, |mut v, x| {
            $crate::alloc::harness(|| v.push($idf(x)));
            v
        });
        $crate::itercheck::same_multiset(all, want, &format!("{}: next() x{} then fold", $name, n / 2))?;
    }};
}

pub fn map_iter_check<T: El>(w: &mut MapWorld<T>, arg: u64) -> VResult<()> {
    let kind = arg & 0xFF;
    let dense = arg >> 8 & 1 == 1;
    let n = w.r.len();
    let want: Vec<(u32, u32)> = w.r.iter().map(|(&k, &v)| (k, v)).collect();
    let want_k: Vec<(u32, u32)> = want.iter().map(|&(k, _)| (k, 0)).collect();
    let mut want_v: Vec<(u32, u32)> = want.iter().map(|&(_, v)| (0, v)).collect();
    want_v.sort();
    let name = IK_NAMES[kind as usize];
    let m = &mut w.m;
    match kind {
        IK_ITER => {
            same_multiset(walk(m.iter().map(|(k, v)| (k.id(), v.id())), n, name)?, &want, name)?;
            provided!(m.iter(), |(k, v): (&T, &T)| (k.id(), v.id()), &want, name);
            if !T::ZST {
                // Debug of the iterators shows exactly what is still to come
                let order: Vec<(u32, u32)> = m.iter().map(|(k, v)| (k.id(), v.id())).collect();
                let d_iter = format!("{:?}", m.iter());
                if d_iter != format!("{:?}", order) {
                    vbail!("mismatch", "Debug of iter() = {} but it yields {:?}", d_iter, order);
                }
                let d_keys = format!("{:?}", m.keys());
                if d_keys != format!("{:?}", order.iter().map(|e| e.0).collect::<Vec<_>>()) {
                    vbail!("mismatch", "Debug of keys() = {} but it yields {:?}", d_keys, order);
                }
                let d_vals = format!("{:?}", m.values());
                if d_vals != format!("{:?}", order.iter().map(|e| e.1).collect::<Vec<_>>()) {
                    vbail!("mismatch", "Debug of values() = {} but it yields {:?}", d_vals, order);
                }
                let d_im = format!("{:?}", m.iter_mut());
                if d_im != format!("{:?}", order) {
                    vbail!("mismatch", "Debug of iter_mut() = {} but it yields {:?}", d_im, order);
                }
                let mut dm: Vec<String> = format!("{:?}", m).trim_start_matches('{').trim_end_matches('}').split(", ").filter(|x| !x.is_empty()).map(|x| x.to_string()).collect();
                dm.sort();
                let mut wm: Vec<String> = order.iter().map(|(k, v)| format!("{}: {}", k, v)).collect();
                wm.sort();
                if dm != wm {
                    vbail!("mismatch", "Debug of the map shows {:?}, elements are {:?}", dm, wm);
                }
            }
            // a cloned iterator continues independently, from every position
            let ps: Vec<usize> = if dense { (0..=n).collect() } else { vec![0, n / 2, n.saturating_sub(1), n] };
            for p in ps {
                let mut it = m.iter();
                let mut head = vec![];
                for _ in 0..p.min(n) {
                    let (k, v) = it.next().ok_or_else(|| Viol::new("mismatch", "iter ended early"))?;
                    head.push((k.id(), v.id()));
                }
                let c = it.clone();
                let tail_c = walk(c.map(|(k, v)| (k.id(), v.id())), n - p.min(n), "iter.clone()")?;
                let tail_o = walk(it.map(|(k, v)| (k.id(), v.id())), n - p.min(n), "iter after clone")?;
                if tail_c != tail_o {
                    vbail!("mismatch", "cloned iter at position {} yields {:?}, original {:?}", p, tail_c, tail_o);
                }
                head.extend(tail_o);
                same_multiset(head, &want, "iter head+tail")?;
            }
        }
        IK_ITER_MUT => {
            same_multiset(walk(m.iter_mut().map(|(k, v)| (k.id(), v.id())), n, name)?, &want, name)?;
            provided!(m.iter_mut(), |(k, v): (&T, &mut T)| (k.id(), v.id()), &want, name);
        }
        IK_KEYS => {
            same_multiset(walk(m.keys().map(|k| (k.id(), 0)), n, name)?, &want_k, name)?;
            provided!(m.keys(), |k: &T| (k.id(), 0), &want_k, name);
            let ps: Vec<usize> = if dense { (0..=n).collect() } else { vec![0, n / 2, n] };
            for p in ps {
                let mut it = m.keys();
                for _ in 0..p.min(n) {
                    it.next();
                }
                let c = it.clone();
                let a = walk(c.map(|k| k.id()), n - p.min(n), "keys.clone()")?;
                let b = walk(it.map(|k| k.id()), n - p.min(n), "keys after clone")?;
                if a != b {
                    vbail!("mismatch", "cloned keys at position {} yields {:?}, original {:?}", p, a, b);
                }
            }
        }
        IK_VALUES => {
            same_multiset(walk(m.values().map(|v| (0, v.id())), n, name)?, &want_v, name)?;
            provided!(m.values(), |v: &T| (0, v.id()), &want_v, name);
            let ps: Vec<usize> = if dense { (0..=n).collect() } else { vec![0, n / 2, n] };
            for p in ps {
                let mut it = m.values();
                for _ in 0..p.min(n) {
                    it.next();
                }
                let c = it.clone();
                let a = walk(c.map(|v| v.id()), n - p.min(n), "values.clone()")?;
                let b = walk(it.map(|v| v.id()), n - p.min(n), "values after clone")?;
                if a != b {
                    vbail!("mismatch", "cloned values at position {} yields {:?}, original {:?}", p, a, b);
                }
            }
        }
        IK_VALUES_MUT => {
            same_multiset(walk(m.values_mut().map(|v| (0, v.id())), n, name)?, &want_v, name)?;
            provided!(m.values_mut(), |v: &mut T| (0, v.id()), &want_v, name);
        }
        IK_REF_INTO => {
            same_multiset(walk((&*m).into_iter().map(|(k, v)| (k.id(), v.id())), n, name)?, &want, name)?;
            provided!((&*m).into_iter(), |(k, v): (&T, &T)| (k.id(), v.id()), &want, name);
        }
        IK_MUT_INTO => {
            same_multiset(walk((&mut *m).into_iter().map(|(k, v)| (k.id(), v.id())), n, name)?, &want, name)?;
            provided!((&mut *m).into_iter(), |(k, v): (&T, &mut T)| (k.id(), v.id()), &want, name);
        }
        _ => {
            // keys() and values() enumerate in the same order as iter()
            let ks = walk(m.keys().map(|k| k.id()), n, "keys")?;
            let vs = walk(m.values().map(|v| v.id()), n, "values")?;
            let it = walk(m.iter().map(|(k, v)| (k.id(), v.id())), n, "iter")?;
            let zipped: Vec<(u32, u32)> = ks.into_iter().zip(vs).collect();
            if zipped != it {
                vbail!("mismatch", "keys().zip(values()) = {:?} but iter() = {:?}", zipped, it);
            }
            same_multiset(zipped, &want, name)?;
        }
    }
    Ok(())
}
