//! Element types: plain `u32`, heap-owning drop-ledgered `Tk`, zero-sized `()`.

use crate::alloc::harness;
use crate::hasher::{tick, Cb};
use std::cell::{Cell, RefCell};
use std::fmt::Debug;
use std::hash::{Hash, Hasher};

pub trait El: Clone + Eq + Hash + Debug + Default + 'static {
    const NAME: &'static str;
    const ZST: bool = false;
    const TRACKED: bool = false;
    /// Object identity is observable (`obj()` differs between equal elements) although nothing is ledgered.
    const IDENT: bool = false;
    /// Make an element with logical id `id` in role key (`true`) or value.
    fn mk(id: u32, is_key: bool) -> Self;
    /// Logical id (checks liveness for tracked elements).
    fn id(&self) -> u32;
    /// Unique object id (0 for untracked types).
    fn obj(&self) -> u64 {
        0
    }
    /// The logical id an element made from `id` reports.
    fn norm(id: u32) -> u32 {
        id
    }
    /// Overwrite the logical id in place (a write through `&mut V`).
    fn set(&mut self, id: u32);
    /// `Extend<(&K, &V)>` needs `Copy`; only plain types implement it (returns false otherwise).
    fn extend_ref(_m: &mut griddle::HashMap<Self, Self, crate::hasher::HB>, _items: &[(u32, u32)]) -> bool {
        false
    }
    /// `Extend<&T>` for sets, same restriction.
    fn set_extend_ref(_s: &mut griddle::HashSet<Self, crate::hasher::HB>, _items: &[u32]) -> bool {
        false
    }
}

impl El for u32 {
    const NAME: &'static str = "u32";
    #[inline]
    fn mk(id: u32, _k: bool) -> u32 {
        id
    }
    #[inline]
    fn id(&self) -> u32 {
        *self
    }
    #[inline]
    fn set(&mut self, id: u32) {
        *self = id
    }
    fn extend_ref(m: &mut griddle::HashMap<u32, u32, crate::hasher::HB>, items: &[(u32, u32)]) -> bool {
        // sources with an exact size_hint, one that under-reports (filter: lower bound 0), and a
        // chain of both, so that every element must be taken whatever the hint says
        match EXT_VARIANT.with(|c| c.get()) {
            0 => m.extend(items.iter().map(|(k, v)| (k, v))),
            1 => m.extend(items.iter().filter(|_| true).map(|(k, v)| (k, v))),
            _ => {
                let h = items.len() / 2;
                m.extend(items[..h].iter().chain(items[h..].iter().filter(|_| true)).map(|(k, v)| (k, v)))
            }
        }
        true
    }
    fn set_extend_ref(s: &mut griddle::HashSet<u32, crate::hasher::HB>, items: &[u32]) -> bool {
        match EXT_VARIANT.with(|c| c.get()) {
            0 => s.extend(items.iter()),
            1 => s.extend(items.iter().filter(|_| true)),
            _ => {
                let h = items.len() / 2;
                s.extend(items[..h].iter().chain(items[h..].iter().filter(|_| true)))
            }
        }
        true
    }
}

impl El for () {
    const NAME: &'static str = "zst";
    const ZST: bool = true;
    fn mk(_id: u32, _k: bool) {}
    fn id(&self) -> u32 {
        0
    }
    fn norm(_id: u32) -> u32 {
        0
    }
    fn set(&mut self, _id: u32) {}
}

// ---------------------------------------------------------------------------------------------
// Drop ledger

const ST_FREE: u8 = 0;
const ST_LIVE: u8 = 1;
const ST_DEAD: u8 = 2;
const MAGIC: u64 = 0xC0FF_EE00_D15E_A5E5;

thread_local! {
    /// which kind of source iterator `extend_ref` uses (0 exact hint, 1 under-reporting, 2 chained)
    pub static EXT_VARIANT: Cell<u8> = const { Cell::new(0) };
    static STATE: RefCell<Vec<u8>> = const { RefCell::new(Vec::new()) };
    static NLIVE: Cell<u64> = const { Cell::new(0) };
    static FAULT: RefCell<Option<String>> = const { RefCell::new(None) };
}

fn fault(msg: String) {
    harness(|| {
        FAULT.with(|f| {
            let mut f = f.borrow_mut();
            if f.is_none() {
                *f = Some(msg);
            }
        })
    })
}
/// First ledger fault (double drop, dead/corrupt element touched) since the last reset.
pub fn ledger_fault() -> Option<String> {
    FAULT.with(|f| f.borrow().clone())
}
pub fn ledger_live() -> u64 {
    let (m, d) = zd_counts();
    NLIVE.with(|c| c.get()) + m.saturating_sub(d)
}
pub fn ledger_created() -> u64 {
    STATE.with(|s| s.borrow().len() as u64)
}
pub fn ledger_reset() {
    zd_reset();
    POD_SERIAL.with(|c| c.set(0));
    harness(|| {
        STATE.with(|s| s.borrow_mut().clear());
        NLIVE.with(|c| c.set(0));
        FAULT.with(|f| *f.borrow_mut() = None);
    })
}
/// Object ids currently live.
pub fn ledger_live_ids() -> Vec<u64> {
    STATE.with(|s| s.borrow().iter().enumerate().filter(|(_, &v)| v == ST_LIVE).map(|(i, _)| i as u64 + 1).collect())
}
pub fn ledger_is_live(obj: u64) -> bool {
    STATE.with(|s| s.borrow().get((obj - 1) as usize).copied() == Some(ST_LIVE))
}

/// Heap-owning element with a unique object id, a canary and a ledgered `Drop`.
pub struct Tk {
    id: u32,
    is_key: bool,
    obj: u64,
    canary: Box<u64>,
}

impl Tk {
    fn fresh(id: u32, is_key: bool) -> Tk {
        harness(|| {
            let obj = STATE.with(|s| {
                let mut s = s.borrow_mut();
                s.push(ST_LIVE);
                s.len() as u64
            });
            NLIVE.with(|c| c.set(c.get() + 1));
            Tk { id, is_key, obj, canary: Box::new(obj ^ MAGIC) }
        })
    }
    #[inline]
    fn check(&self, what: &str) {
        let ok = *self.canary == self.obj ^ MAGIC && STATE.with(|s| s.borrow().get((self.obj.wrapping_sub(1)) as usize).copied() == Some(ST_LIVE));
        if !ok {
            fault(format!("{} touched a dead or corrupt element (obj {} id {})", what, self.obj, self.id));
        }
    }
}
impl Drop for Tk {
    fn drop(&mut self) {
        let canary_ok = *self.canary == self.obj ^ MAGIC;
        let st = STATE.with(|s| s.borrow().get((self.obj.wrapping_sub(1)) as usize).copied());
        match (canary_ok, st) {
            (true, Some(ST_LIVE)) => {
                STATE.with(|s| s.borrow_mut()[(self.obj - 1) as usize] = ST_DEAD);
                NLIVE.with(|c| c.set(c.get() - 1));
            }
            (true, Some(ST_DEAD)) => fault(format!("double drop of obj {} (id {})", self.obj, self.id)),
            _ => fault(format!("drop of corrupt element (obj {} id {})", self.obj, self.id)),
        }
        let _ = ST_FREE;
        // a destructor run by the collection itself may be made to panic (never while already unwinding)
        if crate::alloc::in_subject() && !std::thread::panicking() {
            tick(Cb::Drop);
        }
    }
}
impl Clone for Tk {
    fn clone(&self) -> Tk {
        self.check("clone");
        tick(if self.is_key { Cb::CloneK } else { Cb::CloneV });
        Tk::fresh(self.id, self.is_key)
    }
}
impl PartialEq for Tk {
    fn eq(&self, o: &Tk) -> bool {
        self.check("eq(lhs)");
        o.check("eq(rhs)");
        if self.is_key {
            tick(Cb::Eq);
        }
        self.id == o.id
    }
}
impl Eq for Tk {}
impl Hash for Tk {
    fn hash<H: Hasher>(&self, h: &mut H) {
        self.check("hash");
        h.write_u32(self.id)
    }
}
impl Debug for Tk {
    fn fmt(&self, f: &mut std::fmt::Formatter<'_>) -> std::fmt::Result {
        write!(f, "{}", self.id)
    }
}
impl Default for Tk {
    fn default() -> Tk {
        Tk::fresh(0, false)
    }
}
impl El for Tk {
    const NAME: &'static str = "tk";
    const TRACKED: bool = true;
    const IDENT: bool = true;
    fn mk(id: u32, is_key: bool) -> Tk {
        Tk::fresh(id, is_key)
    }
    #[inline]
    fn id(&self) -> u32 {
        self.check("read");
        self.id
    }
    fn obj(&self) -> u64 {
        self.obj
    }
    fn set(&mut self, id: u32) {
        self.check("write");
        self.id = id
    }
}

// ---------------------------------------------------------------------------------------------
// A zero-sized element with a Drop impl: only counts can be ledgered (there is no object identity).

thread_local! {
    static ZD_MADE: Cell<u64> = const { Cell::new(0) };
    static ZD_DROPPED: Cell<u64> = const { Cell::new(0) };
}
pub fn zd_reset() {
    ZD_MADE.with(|c| c.set(0));
    ZD_DROPPED.with(|c| c.set(0));
}
/// (created, dropped)
pub fn zd_counts() -> (u64, u64) {
    (ZD_MADE.with(|c| c.get()), ZD_DROPPED.with(|c| c.get()))
}

pub struct Zd;
impl Zd {
    fn make() -> Zd {
        ZD_MADE.with(|c| c.set(c.get() + 1));
        Zd
    }
}
impl Drop for Zd {
    fn drop(&mut self) {
        ZD_DROPPED.with(|c| c.set(c.get() + 1));
        let (m, d) = zd_counts();
        if d > m {
            fault(format!("zero-sized element dropped more often ({}) than created ({})", d, m));
        }
    }
}
impl Clone for Zd {
    fn clone(&self) -> Zd {
        tick(Cb::CloneK);
        Zd::make()
    }
}
impl PartialEq for Zd {
    fn eq(&self, _o: &Zd) -> bool {
        true
    }
}
impl Eq for Zd {}
impl Hash for Zd {
    fn hash<H: Hasher>(&self, _h: &mut H) {}
}
impl Debug for Zd {
    fn fmt(&self, f: &mut std::fmt::Formatter<'_>) -> std::fmt::Result {
        write!(f, "0")
    }
}
impl Default for Zd {
    fn default() -> Zd {
        Zd::make()
    }
}
impl El for Zd {
    const NAME: &'static str = "zd";
    const ZST: bool = true;
    fn mk(_id: u32, _k: bool) -> Zd {
        Zd::make()
    }
    fn id(&self) -> u32 {
        0
    }
    fn norm(_id: u32) -> u32 {
        0
    }
    fn set(&mut self, _id: u32) {}
}

// ---------------------------------------------------------------------------------------------
// A large, over-aligned element: 1 KiB at 64-byte alignment (a map slot is 2 KiB), padded with a
// pattern derived from the id so that a partial copy, a misaligned slot or a mixed-up element is
// noticed when read.

#[repr(C, align(64))]
pub struct Big {
    id: u32,
    pad: [u32; 250],
    tail: u32,
}
impl Big {
    fn make(id: u32) -> Big {
        let mut pad = [0u32; 250];
        for (i, p) in pad.iter_mut().enumerate() {
            *p = id.wrapping_mul(0x9E37_79B9).wrapping_add(i as u32);
        }
        Big { id, pad, tail: !id }
    }
    #[inline]
    fn check(&self, what: &str) {
        let want = Big::make(self.id);
        if self.pad != want.pad || self.tail != !self.id || (self as *const Big as usize) % 64 != 0 {
            fault(format!("{} found a torn or misaligned large element (id {})", what, self.id));
        }
    }
}
impl Clone for Big {
    fn clone(&self) -> Big {
        self.check("clone");
        tick(Cb::CloneK);
        Big::make(self.id)
    }
}
impl PartialEq for Big {
    fn eq(&self, o: &Big) -> bool {
        self.check("eq(lhs)");
        o.check("eq(rhs)");
        tick(Cb::Eq);
        self.id == o.id
    }
}
impl Eq for Big {}
impl Hash for Big {
    fn hash<H: Hasher>(&self, h: &mut H) {
        self.check("hash");
        h.write_u32(self.id)
    }
}
impl Debug for Big {
    fn fmt(&self, f: &mut std::fmt::Formatter<'_>) -> std::fmt::Result {
        write!(f, "{}", self.id)
    }
}
impl Default for Big {
    fn default() -> Big {
        Big::make(0)
    }
}
impl El for Big {
    const NAME: &'static str = "big";
    fn mk(id: u32, _k: bool) -> Big {
        Big::make(id)
    }
    #[inline]
    fn id(&self) -> u32 {
        self.check("read");
        self.id
    }
    fn set(&mut self, id: u32) {
        self.check("write");
        *self = Big::make(id)
    }
}

// ---------------------------------------------------------------------------------------------
// Plain data with an identity: no drop glue (`needs_drop` is false, the type is `Copy`-like), `Eq` and
// `Hash` look at the id only, and a serial number tells equal elements apart - which of two equal keys
// a collection keeps or hands back is observable without any destructor being involved.

thread_local! {
    static POD_SERIAL: Cell<u64> = const { Cell::new(0) };
}
fn pod_serial() -> u64 {
    POD_SERIAL.with(|c| {
        c.set(c.get() + 1);
        c.get()
    })
}
pub struct Pod {
    id: u32,
    serial: u64,
}
impl Clone for Pod {
    fn clone(&self) -> Pod {
        tick(Cb::CloneK);
        Pod { id: self.id, serial: pod_serial() }
    }
}
impl PartialEq for Pod {
    fn eq(&self, o: &Pod) -> bool {
        tick(Cb::Eq);
        self.id == o.id
    }
}
impl Eq for Pod {}
impl Hash for Pod {
    fn hash<H: Hasher>(&self, h: &mut H) {
        h.write_u32(self.id)
    }
}
impl Debug for Pod {
    fn fmt(&self, f: &mut std::fmt::Formatter<'_>) -> std::fmt::Result {
        write!(f, "{}", self.id)
    }
}
impl Default for Pod {
    fn default() -> Pod {
        Pod { id: 0, serial: pod_serial() }
    }
}
impl El for Pod {
    const NAME: &'static str = "pod";
    const IDENT: bool = true;
    fn mk(id: u32, _k: bool) -> Pod {
        Pod { id, serial: pod_serial() }
    }
    #[inline]
    fn id(&self) -> u32 {
        self.id
    }
    fn obj(&self) -> u64 {
        self.serial
    }
    fn set(&mut self, id: u32) {
        self.id = id
    }
}
