//! Operation alphabet.  An `Op` is (kind, logical key id, argument); both map and set worlds use it.

use std::fmt;

macro_rules! opk {
    ($($name:ident),* $(,)?) => {
        #[derive(Clone, Copy, Debug, PartialEq, Eq, Hash, PartialOrd, Ord)]
        #[repr(u16)]
        pub enum OpK { $($name),* }
        pub const OPK_ALL: &[OpK] = &[$(OpK::$name),*];
        impl OpK {
            pub fn name(self) -> &'static str { match self { $(OpK::$name => stringify!($name)),* } }
            pub fn parse(s: &str) -> Option<OpK> { match s { $(stringify!($name) => Some(OpK::$name),)* _ => None } }
        }
    }
}

opk! {
    // ---- map: lookups (key)
    Get, GetMut, GetKeyValue, GetKeyValueMut, ContainsKey, Index,
    RawGet,          // arg: builder 0 from_key, 1 from_key_hashed_nocheck, 2 from_hash
    // ---- map: single-key mutations (key)
    Insert, Remove, RemoveEntry,
    EntryChain,      // arg: encoded method chain (see chain.rs)
    RawChain,        // arg: builder + encoded chain
    // ---- map: bulk
    IterMutWrite, ValuesMutWrite,
    ExtendFresh,     // arg: n fresh keys
    ExtendOverlap,   // arg: n keys starting at `key` (present and absent mixed)
    ExtendRef,       // arg: n (Copy types only)
    FromIter,        // rebuild the map from its own contents via FromIterator
    Clear,
    Retain,          // arg: predicate code
    DrainFilter,     // arg: predicate code | mode<<32 | prefix<<40
    Drain,           // arg: mode<<32 | prefix<<40
    IntoIter,        // arg: mode<<32 | prefix<<40   (map is consumed; world continues with an empty map)
    // ---- capacity
    Reserve, TryReserve, ShrinkTo, ShrinkToFit,
    WithCapacity,    // arg: n   (only as first op: replaces the empty map)
    FillToCap,       // C04 head-room probe: insert capacity()-len() unseen keys under monitors
    // ---- clone
    CloneReplace,    // m = m.clone()
    CloneFromInto,   // arg: destination shape; d.clone_from(&m); m = d
    // ---- read-only macro checks
    IterCheck,       // arg: iterator kind (C08)
    // ---- set (key)
    SInsert, SReplace, SRemove, STake, SGet, SContains, SGetOrInsert, SGetOrInsertOwned, SGetOrInsertWith,
    // ---- safety-only (reference switched off afterwards)
    RawInsertWrongHash,
    // ---- extend with an iterator whose size_hint lower bound is near the integer limits
    ExtendHint,      // arg: hint selector
    // ---- read-only probe: lookups / removals through an unsized borrowed key form on a mirror collection
    BorrowProbe,
}

#[derive(Clone, Copy, PartialEq, Eq, Hash, PartialOrd, Ord)]
pub struct Op {
    pub k: OpK,
    pub key: u32,
    pub arg: u64,
}

impl Op {
    pub const fn new(k: OpK, key: u32, arg: u64) -> Op {
        Op { k, key, arg }
    }
    pub const fn k(k: OpK) -> Op {
        Op { k, key: 0, arg: 0 }
    }
    pub const fn key(k: OpK, key: u32) -> Op {
        Op { k, key, arg: 0 }
    }
    pub const fn arg(k: OpK, arg: u64) -> Op {
        Op { k, key: 0, arg }
    }
    pub fn parse(s: &str) -> Option<Op> {
        let (name, rest) = match s.find('(') {
            Some(i) => (&s[..i], s[i + 1..].trim_end_matches(')')),
            None => (s, ""),
        };
        let k = OpK::parse(name.trim())?;
        let mut key = 0u32;
        let mut arg = 0u64;
        if !rest.is_empty() {
            let mut it = rest.split(',');
            key = it.next()?.trim().parse().ok()?;
            if let Some(a) = it.next() {
                let a = a.trim();
                arg = if let Some(h) = a.strip_prefix("0x") { u64::from_str_radix(h, 16).ok()? } else { a.parse().ok()? };
            }
        }
        Some(Op { k, key, arg })
    }
}
impl fmt::Display for Op {
    fn fmt(&self, f: &mut fmt::Formatter<'_>) -> fmt::Result {
        if self.arg > 0xFFFF {
            write!(f, "{}({},0x{:x})", self.k.name(), self.key, self.arg)
        } else {
            write!(f, "{}({},{})", self.k.name(), self.key, self.arg)
        }
    }
}
impl fmt::Debug for Op {
    fn fmt(&self, f: &mut fmt::Formatter<'_>) -> fmt::Result {
        fmt::Display::fmt(self, f)
    }
}

/// Iterator macro-op modes (Drain / IntoIter / DrainFilter).
pub const MODE_CONSUME: u64 = 0; // consume everything
pub const MODE_DROP_AT: u64 = 1; // consume `prefix` items then drop the iterator
pub const MODE_FORGET_AT: u64 = 2; // consume `prefix` items then mem::forget the iterator
// The provided `Iterator` methods a collection may override: after `prefix` calls of `next()` the rest
// is consumed through one of them (`for_each`, `sum`, `max`, `extend(iter)`, `collect` into another
// collection all go through `fold`).
pub const MODE_FOLD_AT: u64 = 3; // then fold() the rest
pub const MODE_COUNT_AT: u64 = 4; // then count()
pub const MODE_LAST_AT: u64 = 5; // then last()
pub const MODE_NTH_AT: u64 = 6; // nth(prefix) first, then next() to the end
pub const MODES_PROVIDED: [u64; 4] = [MODE_FOLD_AT, MODE_COUNT_AT, MODE_LAST_AT, MODE_NTH_AT];
/// `fold` whose callback panics on item number `prefix` (0-based; the panic is caught): the iterator
/// is dropped by the unwind and must release everything it still owns exactly once.
pub const MODE_FOLD_PANIC_AT: u64 = 7;
/// Prefix value standing for `usize::MAX` (`nth(usize::MAX)`, i.e. `skip(usize::MAX)`: nothing is handed out).
pub const PREFIX_MAX: u64 = 0xFF_FFFF;
fn prefix_of(prefix: u64) -> usize {
    if prefix == PREFIX_MAX {
        usize::MAX
    } else {
        prefix as usize
    }
}

/// Number of `next()` calls made before `finish_iter`.
pub fn iter_limit(mode: u64, prefix: u64) -> usize {
    match mode {
        MODE_CONSUME => usize::MAX,
        MODE_NTH_AT | MODE_FOLD_PANIC_AT => 0,
        _ => prefix as usize,
    }
}
/// Does the mode hand out every item?
pub fn iter_complete(mode: u64) -> bool {
    mode == MODE_CONSUME || mode == MODE_FOLD_AT
}
/// Number of items handed out in total when `total` are available.
pub fn iter_expect(mode: u64, prefix: u64, total: usize) -> usize {
    let p = prefix_of(prefix).min(total);
    match mode {
        MODE_CONSUME | MODE_FOLD_AT => total,
        MODE_LAST_AT => p + (total > p) as usize,
        MODE_NTH_AT => total - p,
        _ => p,
    }
}
/// Dispose of the rest of an iterator as the mode says; every item handed out goes to `sink`.
/// Returns the value of `count()` in that mode.
pub fn finish_iter<I: Iterator>(mut it: I, mode: u64, prefix: u64, sink: &mut dyn FnMut(I::Item)) -> Option<usize> {
    match mode {
        MODE_FORGET_AT => {
            std::mem::forget(it);
            None
        }
        MODE_FOLD_AT => {
            it.fold((), |(), x| sink(x));
            None
        }
        MODE_FOLD_PANIC_AT => {
            let stop = prefix_of(prefix);
            let _ = crate::util::catch(move || {
                it.fold(0usize, |n, x| {
                    if n == stop {
                        // (the item in hand is dropped by the unwind, like the rest of the iterator)
                        panic!("consumer gives up at item {}", n);
                    }
                    sink(x);
                    n + 1
                })
            });
            None
        }
        MODE_COUNT_AT => Some(it.count()),
        MODE_LAST_AT => {
            if let Some(x) = it.last() {
                sink(x)
            }
            None
        }
        MODE_NTH_AT => {
            if let Some(x) = it.nth(prefix_of(prefix)) {
                sink(x)
            }
            for x in it.by_ref() {
                sink(x)
            }
            None
        }
        _ => {
            drop(it);
            None
        }
    }
}
/// Post-conditions common to all consuming iterators: number of items handed out and `count()`.
pub fn iter_post(what: &str, mode: u64, prefix: u64, total: usize, handed_out: usize, counted: Option<usize>) -> VResult<()> {
    let e = iter_expect(mode, prefix, total);
    if handed_out != e {
        return Err(Viol::new("mismatch", format!("{} (mode {}, prefix {}) handed out {} items, expected {} of {}", what, mode, prefix, handed_out, e, total)));
    }
    if let Some(c) = counted {
        let rest = total - prefix_of(prefix).min(total);
        if c != rest {
            return Err(Viol::new("mismatch", format!("{}: count() after {} items = {}, but {} were left", what, prefix, c, rest)));
        }
    }
    Ok(())
}
pub fn iter_arg(pred: u64, mode: u64, prefix: u64) -> u64 {
    (pred & 0xFFFF_FFFF) | (mode << 32) | (prefix << 40)
}
pub fn iter_arg_split(arg: u64) -> (u64, u64, u64) {
    (arg & 0xFFFF_FFFF, (arg >> 32) & 0xFF, arg >> 40)
}

/// A violation of an oracle.
#[derive(Clone, Debug)]
pub struct Viol {
    /// mismatch | panic | audit | cursor | ledger | monitor | contract | crash | hang | diff
    pub kind: String,
    pub msg: String,
}
impl Viol {
    pub fn new(kind: &str, msg: impl Into<String>) -> Viol {
        Viol { kind: kind.to_string(), msg: msg.into() }
    }
}
pub type VResult<T> = Result<T, Viol>;

#[macro_export]
macro_rules! vbail {
    ($kind:expr, $($arg:tt)*) => { return Err($crate::op::Viol::new($kind, format!($($arg)*))) }
}
#[macro_export]
macro_rules! vcheck_eq {
    ($what:expr, $got:expr, $want:expr) => {{
        let g = $got; let w = $want;
        if g != w { return Err($crate::op::Viol::new("mismatch", format!("{}: got {:?} want {:?}", $what, g, w))); }
    }};
}
