//! Operation alphabet.  An `Op` is (kind, logical key id, argument); both map and set worlds use it.

use std::fmt;

macro_rules! opk {
    ($($name:ident),* $(,)?) => {
        #[derive(Clone, Copy, Debug, PartialEq, Eq, Hash, PartialOrd, Ord)]
        #[repr(u16)]
        pub enum OpK { $($name),* }
        pub const OPK_ALL: &[OpK] = &[$(OpK::$name),*];
        impl OpK {
            pub fn name(self) -> &'static str { match self { $(OpK::$name => stringify!($name)),* } }
            pub fn parse(s: &str) -> Option<OpK> { match s { $(stringify!($name) => Some(OpK::$name),)* _ => None } }
        }
    }
}

opk! {
    // ---- map: lookups (key)
    Get, GetMut, GetKeyValue, GetKeyValueMut, ContainsKey, Index,
    RawGet,          // arg: builder 0 from_key, 1 from_key_hashed_nocheck, 2 from_hash
    // ---- map: single-key mutations (key)
    Insert, Remove, RemoveEntry,
    EntryChain,      // arg: encoded method chain (see chain.rs)
    RawChain,        // arg: builder + encoded chain
    // ---- map: bulk
    IterMutWrite, ValuesMutWrite,
    ExtendFresh,     // arg: n fresh keys
    ExtendOverlap,   // arg: n keys starting at `key` (present and absent mixed)
    ExtendRef,       // arg: n (Copy types only)
    FromIter,        // rebuild the map from its own contents via FromIterator
    Clear,
    Retain,          // arg: predicate code
    DrainFilter,     // arg: predicate code | mode<<32 | prefix<<40
    Drain,           // arg: mode<<32 | prefix<<40
    IntoIter,        // arg: mode<<32 | prefix<<40   (map is consumed; world continues with an empty map)
    // ---- capacity
    Reserve, TryReserve, ShrinkTo, ShrinkToFit,
    WithCapacity,    // arg: n   (only as first op: replaces the empty map)
    FillToCap,       // C04 head-room probe: insert capacity()-len() unseen keys under monitors
    // ---- clone
    CloneReplace,    // m = m.clone()
    CloneFromInto,   // arg: destination shape; d.clone_from(&m); m = d
    // ---- read-only macro checks
    IterCheck,       // arg: iterator kind (C08)
    // ---- set (key)
    SInsert, SReplace, SRemove, STake, SGet, SContains, SGetOrInsert, SGetOrInsertOwned, SGetOrInsertWith,
    // ---- safety-only (reference switched off afterwards)
    RawInsertWrongHash,
    // ---- extend with an iterator whose size_hint lower bound is near the integer limits
    ExtendHint,      // arg: hint selector
}

#[derive(Clone, Copy, PartialEq, Eq, Hash, PartialOrd, Ord)]
pub struct Op {
    pub k: OpK,
    pub key: u32,
    pub arg: u64,
}

impl Op {
    pub const fn new(k: OpK, key: u32, arg: u64) -> Op {
        Op { k, key, arg }
    }
    pub const fn k(k: OpK) -> Op {
        Op { k, key: 0, arg: 0 }
    }
    pub const fn key(k: OpK, key: u32) -> Op {
        Op { k, key, arg: 0 }
    }
    pub const fn arg(k: OpK, arg: u64) -> Op {
        Op { k, key: 0, arg }
    }
    pub fn parse(s: &str) -> Option<Op> {
        let (name, rest) = match s.find('(') {
            Some(i) => (&s[..i], s[i + 1..].trim_end_matches(')')),
            None => (s, ""),
        };
        let k = OpK::parse(name.trim())?;
        let mut key = 0u32;
        let mut arg = 0u64;
        if !rest.is_empty() {
            let mut it = rest.split(',');
            key = it.next()?.trim().parse().ok()?;
            if let Some(a) = it.next() {
                let a = a.trim();
                arg = if let Some(h) = a.strip_prefix("0x") { u64::from_str_radix(h, 16).ok()? } else { a.parse().ok()? };
            }
        }
        Some(Op { k, key, arg })
    }
}
impl fmt::Display for Op {
    fn fmt(&self, f: &mut fmt::Formatter<'_>) -> fmt::Result {
        if self.arg > 0xFFFF {
            write!(f, "{}({},0x{:x})", self.k.name(), self.key, self.arg)
        } else {
            write!(f, "{}({},{})", self.k.name(), self.key, self.arg)
        }
    }
}
impl fmt::Debug for Op {
    fn fmt(&self, f: &mut fmt::Formatter<'_>) -> fmt::Result {
        fmt::Display::fmt(self, f)
    }
}

/// Iterator macro-op modes (Drain / IntoIter / DrainFilter).
pub const MODE_CONSUME: u64 = 0; // consume everything
pub const MODE_DROP_AT: u64 = 1; // consume `prefix` items then drop the iterator
pub const MODE_FORGET_AT: u64 = 2; // consume `prefix` items then mem::forget the iterator
pub fn iter_arg(pred: u64, mode: u64, prefix: u64) -> u64 {
    (pred & 0xFFFF_FFFF) | (mode << 32) | (prefix << 40)
}
pub fn iter_arg_split(arg: u64) -> (u64, u64, u64) {
    (arg & 0xFFFF_FFFF, (arg >> 32) & 0xFF, arg >> 40)
}

/// A violation of an oracle.
#[derive(Clone, Debug)]
pub struct Viol {
    /// mismatch | panic | audit | cursor | ledger | monitor | contract | crash | hang | diff
    pub kind: String,
    pub msg: String,
}
impl Viol {
    pub fn new(kind: &str, msg: impl Into<String>) -> Viol {
        Viol { kind: kind.to_string(), msg: msg.into() }
    }
}
pub type VResult<T> = Result<T, Viol>;

#[macro_export]
macro_rules! vbail {
    ($kind:expr, $($arg:tt)*) => { return Err($crate::op::Viol::new($kind, format!($($arg)*))) }
}
#[macro_export]
macro_rules! vcheck_eq {
    ($what:expr, $got:expr, $want:expr) => {{
        let g = $got; let w = $want;
        if g != w { return Err($crate::op::Viol::new("mismatch", format!("{}: got {:?} want {:?}", $what, g, w))); }
    }};
}
