//! Orchestrator: runs shards in isolated worker processes, classifies what they found against the
//! known-findings file, writes replay artefacts and the evidence file.

use crate::shard::{ShardResult, ShardSpec, ViolRec};
use serde::{Deserialize, Serialize};
use serde_json::json;
use std::collections::BTreeMap;
use std::path::{Path, PathBuf};
use std::process::{Command, Stdio};
use std::time::{Duration, Instant};

pub fn root() -> PathBuf {
    PathBuf::from(std::env::var("VERIF_ROOT").unwrap_or_else(|_| "/verif".into()))
}
pub fn bin_for(profile: &str) -> PathBuf {
    let r = std::env::var("GMC_TARGET_DIR").map(PathBuf::from).unwrap_or_else(|_| root().join("target"));
    match profile {
        "asan" => r.join("asan/x86_64-unknown-linux-gnu/rel/gmc"),
        "par" => r.join("par/chk/gmc-par"),
        "parreal" => r.join("parreal/chk/gmc-par-real"),
        p => r.join(p).join(p).join("gmc"),
    }
}

#[derive(Serialize, Deserialize, Clone, Debug, Default)]
pub struct KnownFinding {
    pub property: String,
    /// all of these substrings must occur in the violation signature
    pub sig_contains: Vec<String>,
    pub what: String,
}
#[derive(Serialize, Deserialize, Clone, Debug, Default)]
pub struct KnownFile {
    pub known: Vec<KnownFinding>,
    pub fixed: Vec<String>,
}
pub fn load_known() -> KnownFile {
    let p = root().join("known_findings.json");
    match std::fs::read_to_string(&p) {
        Ok(s) => serde_json::from_str(&s).unwrap_or_else(|e| {
            eprintln!("machinery: cannot parse {}: {}", p.display(), e);
            std::process::exit(2)
        }),
        Err(_) => KnownFile::default(),
    }
}

pub struct Job {
    pub spec: ShardSpec,
}
pub enum JobEnd {
    Done(ShardResult),
    Died { what: String, history: Vec<String>, log_tail: String },
}

fn read_cur(p: &Path) -> Vec<String> {
    let s = std::fs::read(p).unwrap_or_default();
    let s = String::from_utf8_lossy(&s);
    let line = s.split('\n').next().unwrap_or("");
    line.split(';').filter(|x| !x.is_empty()).map(|x| x.to_string()).collect()
}

/// Run all jobs, at most `par` at a time, each in its own process.
pub fn run_jobs(specs: Vec<ShardSpec>, par: usize, tag: &str) -> Vec<(ShardSpec, JobEnd)> {
    let rundir = root().join("run").join(tag);
    let _ = std::fs::remove_dir_all(&rundir);
    std::fs::create_dir_all(&rundir).expect("create run dir");
    struct Running {
        idx: usize,
        child: std::process::Child,
        out: PathBuf,
        cur: PathBuf,
        log: PathBuf,
        started: Instant,
        deadline: Duration,
    }
    let mut results: Vec<Option<JobEnd>> = specs.iter().map(|_| None).collect();
    let mut running: Vec<Running> = vec![];
    let mut next = 0usize;
    while next < specs.len() || !running.is_empty() {
        while running.len() < par && next < specs.len() {
            let spec = &specs[next];
            let base = rundir.join(format!("{:03}-{}", next, spec.label()));
            let specf = base.with_extension("spec.json");
            let out = base.with_extension("out.json");
            let cur = base.with_extension("cur");
            let log = base.with_extension("log");
            std::fs::write(&specf, serde_json::to_string_pretty(spec).unwrap()).unwrap();
            let bin = bin_for(&spec.profile);
            if !bin.exists() {
                eprintln!("machinery: worker binary {} missing (run setup)", bin.display());
                std::process::exit(2);
            }
            let logf = std::fs::File::create(&log).unwrap();
            let child = Command::new(&bin)
                .arg("shard")
                .arg(&specf)
                .arg(&out)
                .arg(&cur)
                .env("ASAN_OPTIONS", "detect_leaks=0:abort_on_error=0:exitcode=98:allocator_may_return_null=1:handle_segv=1:print_summary=1:detect_stack_use_after_scope=0")
                .env("RUST_BACKTRACE", "0")
                .stdin(Stdio::null())
                .stdout(Stdio::from(logf.try_clone().unwrap()))
                .stderr(Stdio::from(logf))
                .spawn()
                .expect("spawn worker");
            running.push(Running { idx: next, child, out, cur, log, started: Instant::now(), deadline: Duration::from_secs_f64(spec.max_secs * 3.0 + 120.0) });
            next += 1;
        }
        std::thread::sleep(Duration::from_millis(15));
        let mut i = 0;
        while i < running.len() {
            let r = &mut running[i];
            let done = match r.child.try_wait() {
                Ok(Some(status)) => Some(status),
                Ok(None) => {
                    if r.started.elapsed() > r.deadline {
                        let _ = r.child.kill();
                        let _ = r.child.wait();
                        results[r.idx] = Some(JobEnd::Died { what: format!("worker exceeded its wall limit of {:?}", r.deadline), history: read_cur(&r.cur), log_tail: tail(&r.log) });
                        running.swap_remove(i);
                        continue;
                    }
                    None
                }
                Err(e) => {
                    eprintln!("machinery: wait failed: {}", e);
                    std::process::exit(2);
                }
            };
            if let Some(status) = done {
                let r = running.swap_remove(i);
                let end = if status.success() {
                    match std::fs::read_to_string(&r.out).ok().and_then(|s| serde_json::from_str::<ShardResult>(&s).ok()) {
                        Some(res) => JobEnd::Done(res),
                        None => JobEnd::Died { what: "worker exited 0 without a result file".into(), history: vec![], log_tail: tail(&r.log) },
                    }
                } else {
                    use std::os::unix::process::ExitStatusExt;
                    let what = match (status.code(), status.signal()) {
                        (Some(97), _) => "hang: no progress for the watchdog period".to_string(),
                        (Some(98), _) => "AddressSanitizer report".to_string(),
                        (Some(2), _) | (Some(101), _) => "machinery".to_string(),
                        (Some(c), _) => format!("exit code {}", c),
                        (None, Some(s)) => format!("killed by signal {}", s),
                        _ => "unknown death".to_string(),
                    };
                    JobEnd::Died { what, history: read_cur(&r.cur), log_tail: tail(&r.log) }
                };
                results[r.idx] = Some(end);
                continue;
            }
            i += 1;
        }
    }
    specs.into_iter().zip(results.into_iter().map(|r| r.unwrap())).collect()
}

fn tail(p: &Path) -> String {
    let s = std::fs::read(p).unwrap_or_default();
    let s = String::from_utf8_lossy(&s);
    let lines: Vec<&str> = s.lines().collect();
    // the ASan summary / first error line is the most useful bit
    let mut keep: Vec<&str> = lines.iter().copied().filter(|l| l.contains("ERROR: AddressSanitizer") || l.contains("SUMMARY:")).collect();
    let n = lines.len();
    keep.extend(lines[n.saturating_sub(6)..].iter().copied());
    keep.join("\n")
}

fn asan_sig(log_tail: &str) -> String {
    for l in log_tail.lines() {
        if let Some(i) = l.find("ERROR: AddressSanitizer: ") {
            let rest = &l[i + 25..];
            let w: String = rest.split_whitespace().next().unwrap_or("").to_string();
            return w;
        }
    }
    String::new()
}

pub struct Report {
    pub prop: String,
    pub tier: String,
    pub level: String,
    pub violations: Vec<(ShardSpec, ViolRec)>,
    pub known_hits: Vec<(String, ViolRec)>,
    pub machinery: Vec<String>,
    pub shards: Vec<serde_json::Value>,
    pub states: u64,
    pub transitions: u64,
    pub executions: u64,
    pub steps: u64,
    pub distinct_obs: u64,
    pub phases: [u64; 4],
    pub samples: Vec<serde_json::Value>,
    pub capped: Vec<String>,
    pub all_exhaustive: bool,
    pub results: Vec<ShardResult>,
    pub extra: BTreeMap<String, serde_json::Value>,
}

pub fn collect(prop: &str, tier: &str, level: &str, ends: Vec<(ShardSpec, JobEnd)>) -> Report {
    let known = load_known();
    let mut rep = Report {
        prop: prop.into(),
        tier: tier.into(),
        level: level.into(),
        violations: vec![],
        known_hits: vec![],
        machinery: vec![],
        shards: vec![],
        states: 0,
        transitions: 0,
        executions: 0,
        steps: 0,
        distinct_obs: 0,
        phases: [0; 4],
        samples: vec![],
        capped: vec![],
        all_exhaustive: true,
        results: vec![],
        extra: BTreeMap::new(),
    };
    let classify = |rep: &mut Report, spec: &ShardSpec, v: ViolRec| {
        if v.kind == "machinery" {
            rep.machinery.push(format!("{}: {}", spec.label(), v.msg));
            return;
        }
        for k in &known.known {
            if k.property == prop && k.sig_contains.iter().all(|s| v.sig.contains(s.as_str())) {
                rep.known_hits.push((k.what.clone(), v));
                return;
            }
        }
        rep.violations.push((spec.clone(), v));
    };
    for (spec, end) in ends {
        match end {
            JobEnd::Done(res) => {
                rep.states += res.states;
                rep.transitions += res.transitions;
                rep.executions += res.executions;
                rep.steps += res.steps;
                rep.distinct_obs += res.distinct_obs;
                for i in 0..4 {
                    rep.phases[i] += res.phases[i];
                }
                if let Some(c) = &res.capped {
                    rep.capped.push(format!("{}: {}", spec.label(), c));
                    rep.all_exhaustive = false;
                }
                if rep.samples.len() < 12 {
                    for s in res.samples.iter().take(2) {
                        rep.samples.push(json!({"shard": spec.label(), "history": s}));
                    }
                }
                rep.shards.push(json!({
                    "shard": spec.label(), "engine": spec.engine, "alphabet": spec.alpha, "states": res.states, "transitions": res.transitions,
                    "executions": res.executions, "layers_states_execs": res.layers, "max_depth": res.max_depth, "fixpoint": res.fixpoint,
                    "capped": res.capped, "phases_none_fresh_partial_emptyold": res.phases, "distinct_observations": res.distinct_obs,
                    "violations": res.viol_count, "wall_s": (res.wall_s * 100.0).round() / 100.0, "digest": format!("{:016x}", res.digest), "extra": res.extra,
                }));
                for v in res.violations.iter().cloned() {
                    classify(&mut rep, &spec, v);
                }
                rep.results.push(res);
            }
            JobEnd::Died { what, history, log_tail } => {
                if what == "machinery" || what.starts_with("worker exited 0") {
                    rep.machinery.push(format!("{}: {}\n{}", spec.label(), what, log_tail));
                    continue;
                }
                let kind = if what.starts_with("hang") || what.starts_with("worker exceeded") { "hang" } else { "crash" };
                let a = asan_sig(&log_tail);
                let msg = format!("{}{}", what, if a.is_empty() { String::new() } else { format!(" ({})", a) });
                let last = history.last().map(|s| s.split('(').next().unwrap_or("").to_string()).unwrap_or_default();
                let sig = format!("{}:{} op={}", kind, msg, last);
                rep.all_exhaustive = false;
                rep.shards.push(json!({"shard": spec.label(), "died": what, "log_tail": log_tail}));
                classify(&mut rep, &spec, ViolRec { kind: kind.into(), msg: format!("{}\n{}", msg, log_tail), history, sig });
            }
        }
    }
    rep
}

/// Write replays, print verdict lines, write evidence; returns the process exit code.
pub fn finish(mut rep: Report, coverage_extra: serde_json::Value, assumptions: Vec<String>, t0: Instant) -> i32 {
    let r = root();
    let seed: i64 = std::env::var("VERIF_SEED").ok().and_then(|s| s.parse().ok()).unwrap_or(0);
    let replays = r.join("replays");
    std::fs::create_dir_all(&replays).ok();
    // Development aid (seeded / mutant runs on a patched tree): evidence of such runs goes elsewhere, so
    // that /verif/evidence only ever describes runs on /repo itself.  Never set by registered commands.
    let evdir = std::env::var("GMC_EVIDENCE_DIR").map(std::path::PathBuf::from).unwrap_or_else(|_| r.join("evidence"));
    std::fs::create_dir_all(&evdir).ok();
    // stale replay files of this property
    if let Ok(rd) = std::fs::read_dir(&replays) {
        for e in rd.flatten() {
            if e.file_name().to_string_lossy().starts_with(&format!("{}-", rep.prop)) {
                let _ = std::fs::remove_file(e.path());
            }
        }
    }
    let mut code = 0;
    let mut printed = std::collections::BTreeSet::new();
    for (what, v) in &rep.known_hits {
        if printed.insert(what.clone()) {
            println!("KNOWN-FINDING: property={} {}  [{}]", rep.prop, what, v.sig);
        }
    }
    // fewest steps first
    rep.violations.sort_by_key(|(_, v)| v.history.len());
    let mut seen_sig = std::collections::BTreeSet::new();
    let mut n = 0;
    for (spec, v) in &rep.violations {
        if !seen_sig.insert(v.sig.clone()) {
            continue;
        }
        n += 1;
        if n > 10 {
            break;
        }
        let path = replays.join(format!("{}-{}.json", rep.prop, n));
        let doc = json!({"property": rep.prop, "kind": v.kind, "message": v.msg, "signature": v.sig, "spec": spec, "history": v.history,
            "how_to_replay": format!("./check replay {}", path.display()),
            "plain_unit_test": rust_test(spec, &v.history)});
        std::fs::write(&path, serde_json::to_string_pretty(&doc).unwrap()).unwrap();
        // re-execute twice in fresh processes before believing it (crashes/hangs are replayed once)
        let verdict = confirm(&path, spec, v);
        match verdict {
            Confirm::Reproduced => {
                println!("VIOLATION property={} replay={}", rep.prop, path.display());
                println!("  {}: {}", v.kind, v.msg.lines().next().unwrap_or(""));
                println!("  shard {}  history ({} ops): {}", spec.label(), v.history.len(), summarize(&v.history));
                code = 1;
            }
            Confirm::Diverged(s) => {
                rep.machinery.push(format!("violation {} did not reproduce identically: {}", path.display(), s));
            }
        }
    }
    for m in &rep.machinery {
        eprintln!("MACHINERY: {}", m);
    }
    if !rep.machinery.is_empty() && code == 0 {
        code = 2;
    }
    let mut cov = json!({
        "states": rep.states,
        "transitions": rep.transitions,
        "traces_validated_against_impl": rep.executions,
        "evaluations": rep.executions,
        "distinct_nontrivial": rep.states,
        "rule": "every explored trace is an execution of the real griddle code; states are distinct exact physical layouts (control bytes, slots, growth_left, cursor) reached; non-trivial = distinct layout",
        "samples": rep.samples,
        "exhaustive": rep.all_exhaustive && rep.machinery.is_empty(),
        "subject_calls_executed": rep.steps,
        "distinct_observations": rep.distinct_obs,
        "phase_coverage": {"no_old_table": rep.phases[0], "old_table_nearly_full": rep.phases[1], "old_table_partly_moved": rep.phases[2], "old_table_emptied_but_present": rep.phases[3]},
        "capped": rep.capped,
        "shards": rep.shards,
        "known_findings_hit": rep.known_hits.iter().map(|(w, _)| w.clone()).collect::<std::collections::BTreeSet<_>>(),
    });
    if let (Some(a), Some(b)) = (cov.as_object_mut(), coverage_extra.as_object()) {
        for (k, v) in b {
            a.insert(k.clone(), v.clone());
        }
    }
    for (k, v) in &rep.extra {
        cov.as_object_mut().unwrap().insert(k.clone(), v.clone());
    }
    if cov["samples"].as_array().map_or(true, |a| a.is_empty()) {
        cov["samples"] = json!(["(no sample recorded)"]);
    }
    let ev = json!({
        "property_id": rep.prop,
        "tier": rep.tier,
        "seed": seed,
        "level": rep.level,
        "coverage": cov,
        "assumptions": assumptions,
        "wall_s": (t0.elapsed().as_secs_f64() * 100.0).round() / 100.0,
        "violations": seen_sig.len(),
    });
    let evp = evdir.join(format!("{}.json", rep.prop));
    std::fs::write(&evp, serde_json::to_string_pretty(&ev).unwrap()).unwrap();
    println!(
        "{} {}: states={} transitions={} executions={} distinct_observations={} violations={} known={} exhaustive={} wall={:.1}s exit={}",
        rep.prop,
        rep.tier,
        rep.states,
        rep.transitions,
        rep.executions,
        rep.distinct_obs,
        seen_sig.len(),
        rep.known_hits.len(),
        rep.all_exhaustive,
        t0.elapsed().as_secs_f64(),
        code
    );
    code
}

fn summarize(h: &[String]) -> String {
    // compress runs of default inserts
    let mut out: Vec<String> = vec![];
    let mut run = 0;
    let mut first = String::new();
    for s in h {
        if s.starts_with("Insert(") && s.ends_with(",0)") {
            if run == 0 {
                first = s.clone();
            }
            run += 1;
        } else {
            if run > 0 {
                out.push(if run > 2 { format!("{} ..x{}", first, run) } else { vec![first.clone(); run].join(" ") });
                run = 0;
            }
            out.push(s.clone());
        }
    }
    if run > 0 {
        out.push(if run > 2 { format!("{} ..x{}", first, run) } else { vec![first.clone(); run].join(" ") });
    }
    let s = out.join(" ");
    if s.len() > 400 {
        format!("{} ...", &s[..400])
    } else {
        s
    }
}

enum Confirm {
    Reproduced,
    Diverged(String),
}

fn confirm(path: &Path, spec: &ShardSpec, v: &ViolRec) -> Confirm {
    let bin = bin_for(&spec.profile);
    if v.kind == "diff" {
        for _ in 0..2 {
            match Command::new(bin_for("chk")).arg("replay").arg(path).arg("--quiet").stdin(Stdio::null()).output() {
                Ok(o) if o.status.code() == Some(1) => {}
                Ok(o) => return Confirm::Diverged(format!("differential replay gave exit {:?}", o.status.code())),
                Err(e) => return Confirm::Diverged(format!("cannot run replay: {}", e)),
            }
        }
        return Confirm::Reproduced;
    }
    let runs = if v.kind == "crash" || v.kind == "hang" { 1 } else { 2 };
    let mut sigs = vec![];
    for _ in 0..runs {
        let out = Command::new(&bin)
            .arg("replay")
            .arg(path)
            .arg("--quiet")
            .env("ASAN_OPTIONS", "detect_leaks=0:abort_on_error=0:exitcode=98:allocator_may_return_null=1:detect_stack_use_after_scope=0")
            .env("GMC_HANG_SECS", "20")
            .stdin(Stdio::null())
            .output();
        match out {
            Ok(o) => {
                let so = String::from_utf8_lossy(&o.stdout).to_string();
                let sig = so.lines().find_map(|l| l.strip_prefix("SIG ")).map(|s| s.to_string());
                let code = o.status.code();
                sigs.push((code, sig));
            }
            Err(e) => return Confirm::Diverged(format!("cannot run replay: {}", e)),
        }
    }
    if v.kind == "crash" || v.kind == "hang" {
        // must fail again in some way
        return match sigs[0].0 {
            Some(0) => Confirm::Diverged("the crashing history replays cleanly".into()),
            _ => Confirm::Reproduced,
        };
    }
    for (code, sig) in &sigs {
        if *code != Some(1) || sig.as_deref() != Some(v.sig.as_str()) {
            return Confirm::Diverged(format!("replay gave exit {:?} sig {:?}, exploration gave {}", code, sig, v.sig));
        }
    }
    Confirm::Reproduced
}

/// A plain `#[test]` body (public API only, no explorer) for single-collection histories.  Calls
/// that have no one-line equivalent are left as comments; `./check replay` is the exact replay.
pub fn rust_test(spec: &ShardSpec, history: &[String]) -> Option<String> {
    use crate::op::{iter_arg_split, Op, OpK};
    if !matches!(spec.engine.as_str(), "e1" | "e2") {
        return None;
    }
    let set = spec.world == "set";
    let (kt, mk) = match spec.ty.as_str() {
        "u32" => ("u32", "k"),
        "zst" => ("()", "()"),
        _ => ("Box<u32>", "Box::new(k)"),
    };
    let mut s = String::new();
    s.push_str("// Hasher: deterministic, the harness' kind/seed; any BuildHasher with these hash values reproduces it.\n");
    s.push_str(&format!("// hasher kind = {}, seed = {}, initial capacity = {}\n", crate::hasher::H_NAMES[spec.hk as usize & 3], spec.seed, spec.cap0));
    s.push_str("#[test]\nfn replay() {\n");
    if set {
        s.push_str(&format!("    let mut s: griddle::HashSet<{}, H> = griddle::HashSet::with_capacity_and_hasher({}, H::new());\n", kt, spec.cap0));
    } else {
        s.push_str(&format!("    let mut m: griddle::HashMap<{}, u32, H> = griddle::HashMap::with_capacity_and_hasher({}, H::new());\n", kt, spec.cap0));
    }
    let key = |k: u32| mk.replace('k', &k.to_string());
    for h in history {
        let op = Op::parse(h)?;
        let k = key(op.key);
        let line = match op.k {
            OpK::Insert => format!("m.insert({}, /* next value */ 0);", k),
            OpK::Remove => format!("m.remove(&{});", k),
            OpK::RemoveEntry => format!("m.remove_entry(&{});", k),
            OpK::Get => format!("let _ = m.get(&{});", k),
            OpK::GetMut => format!("if let Some(v) = m.get_mut(&{}) {{ *v = (*v + 1) % 3; }}", k),
            OpK::GetKeyValue => format!("let _ = m.get_key_value(&{});", k),
            OpK::ContainsKey => format!("let _ = m.contains_key(&{});", k),
            OpK::Clear => (if set { "s.clear();" } else { "m.clear();" }).to_string(),
            OpK::Reserve => format!("{}.reserve({});", if set { "s" } else { "m" }, op.arg),
            OpK::TryReserve => format!("let _ = {}.try_reserve({});", if set { "s" } else { "m" }, op.arg),
            OpK::ShrinkTo => format!("{}.shrink_to({});", if set { "s" } else { "m" }, op.arg),
            OpK::ShrinkToFit => format!("{}.shrink_to_fit();", if set { "s" } else { "m" }),
            OpK::CloneReplace => (if set { "s = s.clone();" } else { "m = m.clone();" }).to_string(),
            OpK::IterMutWrite => "for (_, v) in m.iter_mut() { *v = (*v + 1) % 3; }".to_string(),
            OpK::ValuesMutWrite => "for v in m.values_mut() { *v = (*v + 1) % 3; }".to_string(),
            OpK::Retain if op.arg & 0xFFFF == 0 => format!("{}.retain(|..| false);", if set { "s" } else { "m" }),
            OpK::Retain if op.arg & 0xFFFF == 4 => (if set { "s.retain(|k| k % 2 == 0);" } else { "m.retain(|k, _| k % 2 == 0);" }).to_string(),
            OpK::Drain if iter_arg_split(op.arg).1 == 0 => format!("{}.drain().for_each(drop);", if set { "s" } else { "m" }),
            OpK::EntryChain => format!("// m.{}  on key {}", crate::chain::describe(op.arg, false).replacen("entry", &format!("entry({})", k), 1), op.key),
            OpK::RawChain => format!("// m.{}  on key {}", crate::chain::describe(op.arg, true), op.key),
            OpK::SInsert => format!("s.insert({});", k),
            OpK::SRemove => format!("s.remove(&{});", k),
            OpK::SReplace => format!("s.replace({});", k),
            OpK::STake => format!("s.take(&{});", k),
            OpK::SGet => format!("let _ = s.get(&{});", k),
            OpK::SContains => format!("let _ = s.contains(&{});", k),
            OpK::SGetOrInsert => format!("s.get_or_insert({});", k),
            _ => format!("// {}   (no one-line equivalent: predicate / iterator prefix / probe resolved on the state)", h),
        };
        s.push_str("    ");
        s.push_str(&line);
        s.push('\n');
    }
    s.push_str("    // then: compare len(), iter() and get() of every key with a BTreeMap fed the same calls\n}\n");
    Some(s)
}
