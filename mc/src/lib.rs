pub mod alloc;
pub mod alpha;
pub mod borrowcheck;
pub mod c14;
pub mod chain;
pub mod elem;
pub mod engine;
pub mod faults;
pub mod hasher;
pub mod itercheck;
pub mod mapworld;
pub mod op;
pub mod orch;
pub mod pairs;
pub mod plan;
pub mod serde_impls;
pub mod setworld;
pub mod shard;
pub mod util;

#[global_allocator]
static GLOBAL: alloc::Counting = alloc::Counting;
