//! Small utilities: panic capture, 128-bit state hashing.

use std::cell::RefCell;
use std::panic::{catch_unwind, AssertUnwindSafe};

thread_local! {
    static LAST_PANIC: RefCell<Option<String>> = const { RefCell::new(None) };
    static CATCH_DEPTH: std::cell::Cell<u32> = const { std::cell::Cell::new(0) };
}

/// Install a silent panic hook that records "message @ file:line" per thread.
pub fn install_panic_hook() {
    std::panic::set_hook(Box::new(|info| {
        let msg = if let Some(s) = info.payload().downcast_ref::<&str>() {
            s.to_string()
        } else if let Some(s) = info.payload().downcast_ref::<String>() {
            s.clone()
        } else {
            "<non-string panic>".to_string()
        };
        let loc = info.location().map(|l| format!("{}:{}", shorten(l.file()), l.line())).unwrap_or_default();
        if CATCH_DEPTH.with(|c| c.get()) == 0 {
            eprintln!("machinery panic: {} @ {}", msg, loc);
        }
        crate::alloc::harness(|| LAST_PANIC.with(|p| *p.borrow_mut() = Some(format!("{} @ {}", msg, loc))));
    }));
}
fn shorten(f: &str) -> String {
    // keep the crate-relative tail so that messages do not depend on where cargo keeps sources
    if let Some(i) = f.find("hashbrown-") {
        return f[i..].to_string();
    }
    if let Some(i) = f.find("/repo/") {
        return format!("griddle/{}", &f[i + 6..]);
    }
    if let Some(i) = f.find("/library/") {
        return format!("std{}", &f[i + 8..]);
    }
    f.to_string()
}
pub fn take_panic() -> String {
    LAST_PANIC.with(|p| p.borrow_mut().take()).unwrap_or_else(|| "<no message>".into())
}

/// Run `f`, turning a panic into `Err(message)`.
pub fn catch<R>(f: impl FnOnce() -> R) -> Result<R, String> {
    CATCH_DEPTH.with(|c| c.set(c.get() + 1));
    let r = catch_unwind(AssertUnwindSafe(f));
    CATCH_DEPTH.with(|c| c.set(c.get() - 1));
    match r {
        Ok(r) => Ok(r),
        Err(p) => {
            // The payload may own harness values; dropping it is fine.
            drop(p);
            Err(take_panic())
        }
    }
}

/// 128-bit streaming hash (two independent 64-bit lanes, splitmix-style mixing).
#[derive(Clone)]
pub struct H128 {
    a: u64,
    b: u64,
}
impl Default for H128 {
    fn default() -> Self {
        H128 { a: 0x243F_6A88_85A3_08D3, b: 0x1319_8A2E_0370_7344 }
    }
}
impl H128 {
    pub fn new() -> Self {
        Self::default()
    }
    #[inline]
    pub fn u64(&mut self, x: u64) {
        self.a = (self.a ^ x).wrapping_mul(0x9E37_79B9_7F4A_7C15).rotate_left(29);
        self.b = (self.b.rotate_left(23) ^ x.wrapping_mul(0xC2B2_AE3D_27D4_EB4F)).wrapping_mul(0x1656_67B1_9E37_79F9);
    }
    pub fn bytes(&mut self, s: &[u8]) {
        let mut ch = s.chunks_exact(8);
        for c in &mut ch {
            self.u64(u64::from_le_bytes(c.try_into().unwrap()));
        }
        let r = ch.remainder();
        if !r.is_empty() {
            let mut t = [0u8; 8];
            t[..r.len()].copy_from_slice(r);
            self.u64(u64::from_le_bytes(t) ^ ((r.len() as u64) << 56));
        }
        self.u64(s.len() as u64);
    }
    pub fn str(&mut self, s: &str) {
        self.bytes(s.as_bytes())
    }
    pub fn finish(&self) -> u128 {
        fn fin(mut z: u64) -> u64 {
            z = (z ^ (z >> 30)).wrapping_mul(0xBF58476D1CE4E5B9);
            z = (z ^ (z >> 27)).wrapping_mul(0x94D049BB133111EB);
            z ^ (z >> 31)
        }
        ((fin(self.a) as u128) << 64) | fin(self.b ^ self.a.rotate_left(17)) as u128
    }
    pub fn finish64(&self) -> u64 {
        let f = self.finish();
        (f >> 64) as u64 ^ f as u64
    }
}

pub fn hash_dump(h: &mut H128, d: &griddle::verif::Dump) {
    fn t(h: &mut H128, t: &griddle::verif::TableDump) {
        h.u64(t.buckets as u64);
        h.u64(t.len as u64);
        h.u64(t.capacity as u64);
        h.bytes(&t.ctrl);
        for &e in &t.elems {
            h.u64(e);
        }
    }
    t(h, &d.main);
    match &d.old {
        None => h.u64(0),
        Some(o) => {
            h.u64(1);
            t(h, o);
            h.u64(d.cursor_remaining.unwrap_or(usize::MAX) as u64);
            match &d.cursor_yields {
                None => h.u64(u64::MAX),
                Some(y) => {
                    h.u64(y.len() as u64);
                    for &i in y {
                        h.u64(i as u64);
                    }
                }
            }
        }
    }
}

pub fn json_str(s: &str) -> String {
    serde_json::to_string(s).unwrap()
}
