//! Alphabets: which calls are tried in a state.  Built from named blocks joined with '+'.

use crate::chain::{self, *};
use crate::engine::AlphaCtx;
use crate::itercheck::*;
use crate::op::*;

fn keys(c: &AlphaCtx) -> Vec<u32> {
    if c.universe > 0 {
        (0..c.universe).collect()
    } else if c.concrete {
        (0..=c.next_key).collect()
    } else {
        let mut v = c.classes.reps();
        // a second absent key
        v.push(c.next_key + 1);
        v
    }
}

pub fn core_entry_chains() -> Vec<Vec<u8>> {
    let mut v: Vec<Vec<u8>> = methods(Ty::E).into_iter().map(|(m, _)| vec![m]).collect();
    v.extend(vec![
        vec![E_INSERT, O_GET_MUT],
        vec![E_OR_INSERT, R_WRITE],
        vec![E_OR_DEFAULT, R_WRITE],
        vec![O_INTO_MUT, R_WRITE],
        vec![V_INSERT, R_WRITE],
        vec![O_REPLACE_WITH_NONE, V_INSERT],
        vec![O_REPLACE_WITH_SOME, O_GET],
        vec![E_AND_REPLACE_NONE, E_OR_INSERT],
        vec![E_AND_MODIFY, E_OR_INSERT],
    ]);
    v
}
pub fn core_raw_chains() -> Vec<(u64, Vec<u8>)> {
    let mut v: Vec<(u64, Vec<u8>)> = methods(Ty::RE).into_iter().map(|(m, _)| (0, vec![m])).collect();
    for b in 0..4u64 {
        v.push((b, vec![RV_INSERT_OTHER]));
    }
    for b in 1..4u64 {
        v.push((b, vec![RE_OR_INSERT]));
        v.push((b, vec![RO_REMOVE]));
        v.push((b, vec![RV_INSERT_HASHED]));
        v.push((b, vec![RE_INSERT, RO_GET_MUT]));
    }
    v.extend(vec![
        (0, vec![RE_INSERT, RO_GET_MUT]),
        (0, vec![RO_REPLACE_WITH_NONE, RV_INSERT]),
        (0, vec![RO_INTO_KEY_VALUE, R_WRITE]),
        (0, vec![RE_OR_INSERT, R_WRITE]),
        (0, vec![RV_INSERT_WITH_HASHER, R_WRITE]),
    ]);
    v
}

fn raw_arg(b: u64, ms: &[u8]) -> u64 {
    b | (chain::encode(ms) << 2)
}

pub fn block(name: &str, c: &AlphaCtx, out: &mut Vec<Op>) {
    let ks = keys(c);
    let len = c.len as u64;
    match name {
        "look" => {
            for &k in &ks {
                for op in [OpK::Get, OpK::GetMut, OpK::GetKeyValue, OpK::GetKeyValueMut, OpK::ContainsKey, OpK::Index] {
                    out.push(Op::key(op, k));
                }
                for b in 0..4 {
                    out.push(Op::new(OpK::RawGet, k, b));
                }
            }
        }
        "look1" => {
            for &k in &ks {
                out.push(Op::key(OpK::Get, k));
                out.push(Op::key(OpK::GetMut, k));
            }
        }
        "mut" => {
            for &k in &ks {
                for op in [OpK::Insert, OpK::Remove, OpK::RemoveEntry] {
                    out.push(Op::key(op, k));
                }
            }
        }
        "mut1" => {
            for &k in &ks {
                out.push(Op::key(OpK::Insert, k));
                out.push(Op::key(OpK::Remove, k));
            }
        }
        "ch1" => {
            for &k in &ks {
                for ch in core_entry_chains() {
                    out.push(Op::new(OpK::EntryChain, k, chain::encode(&ch)));
                }
                for (b, ch) in core_raw_chains() {
                    out.push(Op::new(OpK::RawChain, k, raw_arg(b, &ch)));
                }
            }
        }
        // replace_key / replace_entry on a handle that Entry::insert made from a vacant entry (it has no spare
        // key; upstream documents a panic): an ordinary panic or a result, never anything worse
        "nokey" => {
            for &k in &ks {
                out.push(Op::new(OpK::EntryChain, k, chain::encode(&[E_INSERT, O_REPLACE_KEY])));
                out.push(Op::new(OpK::EntryChain, k, chain::encode(&[E_INSERT, O_REPLACE_ENTRY])));
            }
        }
        // the chains that matter for resize bookkeeping
        "ch0" => {
            for &k in &ks {
                for ch in [vec![E_OR_INSERT], vec![O_REMOVE], vec![O_REPLACE_WITH_NONE], vec![O_REPLACE_WITH_SOME], vec![O_REPLACE_WITH_NONE, V_INSERT], vec![E_INSERT]] {
                    out.push(Op::new(OpK::EntryChain, k, chain::encode(&ch)));
                }
                for ch in [vec![RE_OR_INSERT], vec![RO_REMOVE], vec![RO_REPLACE_WITH_NONE], vec![RO_REPLACE_WITH_NONE, RV_INSERT]] {
                    out.push(Op::new(OpK::RawChain, k, raw_arg(0, &ch)));
                }
            }
        }
        "ch2" | "ch3" => {
            let depth = if name == "ch2" { 2 } else { 3 };
            for &k in &ks {
                for ch in all_chains(Ty::E, depth) {
                    out.push(Op::new(OpK::EntryChain, k, chain::encode(&ch)));
                }
                for ch in all_chains(Ty::RE, depth) {
                    out.push(Op::new(OpK::RawChain, k, raw_arg(0, &ch)));
                }
                for b in 1..4 {
                    for ch in all_chains(Ty::RE, depth.min(2)) {
                        out.push(Op::new(OpK::RawChain, k, raw_arg(b, &ch)));
                    }
                }
            }
        }
        // removals of old-table elements the cursor has not reached yet (deep resize states)
        "rmold" => {
            let cl = &c.classes;
            let mut olds: Vec<u32> = vec![];
            for k in [cl.old_next, cl.old_same, cl.old_beyond, cl.old_last].into_iter().flatten() {
                if !olds.contains(&k) {
                    olds.push(k);
                }
            }
            for &k in &olds {
                out.push(Op::key(OpK::Remove, k));
                out.push(Op::new(OpK::EntryChain, k, chain::encode(&[O_REPLACE_WITH_NONE])));
                out.push(Op::new(OpK::Retain, k, 7));
                out.push(Op::new(OpK::DrainFilter, k, iter_arg(6, MODE_CONSUME, 0)));
            }
        }
        // shaping calls composed to depth 2-3 for the second operand of pair worlds
        "deepshape" | "sdeepshape" => {
            let set = name == "sdeepshape";
            for p in [0u64, 2, 3, 4, 10] {
                out.push(Op::arg(OpK::Retain, p));
            }
            out.push(Op::k(OpK::ShrinkToFit));
            out.push(Op::arg(OpK::Reserve, len.max(1)));
            let rm = if set { OpK::SRemove } else { OpK::Remove };
            for k in [c.classes.old_next, c.classes.main_a].into_iter().flatten() {
                out.push(Op::key(rm, k));
            }
        }
        "bulk" => {
            out.push(Op::k(OpK::IterMutWrite));
            out.push(Op::k(OpK::ValuesMutWrite));
            out.push(Op::arg(OpK::ExtendFresh, 3));
            out.push(Op::arg(OpK::ExtendFresh, 20));
            let k0 = c.classes.old_next.or(c.classes.main_a).unwrap_or(0);
            out.push(Op::new(OpK::ExtendOverlap, k0, 4));
            out.push(Op::new(OpK::ExtendOverlap, c.next_key.saturating_sub(2), 5));
            out.push(Op::new(OpK::ExtendRef, k0, 3));
            out.push(Op::new(OpK::ExtendRef, k0, 4 | 1 << 8));
            out.push(Op::new(OpK::ExtendRef, c.next_key.saturating_sub(1), 6 | 2 << 8));
            out.push(Op::k(OpK::FromIter));
            out.push(Op::k(OpK::Clear));
        }
        // bulk calls confined to the universe (E2)
        "bulk2" => {
            out.push(Op::k(OpK::IterMutWrite));
            out.push(Op::k(OpK::ValuesMutWrite));
            out.push(Op::new(OpK::ExtendOverlap, 0, c.universe.max(1) as u64));
            out.push(Op::new(OpK::ExtendRef, 0, c.universe.max(1) as u64));
            out.push(Op::k(OpK::FromIter));
            out.push(Op::k(OpK::Clear));
        }
        "shape" => {
            for p in [0u64, 2, 3, 4] {
                out.push(Op::arg(OpK::Retain, p));
                out.push(Op::arg(OpK::DrainFilter, iter_arg(p, MODE_CONSUME, 0)));
            }
            out.push(Op::arg(OpK::Retain, 4 | 1 << 16));
            out.push(Op::arg(OpK::DrainFilter, iter_arg(1, MODE_CONSUME, 0)));
            out.push(Op::arg(OpK::Drain, iter_arg(0, MODE_CONSUME, 0)));
            for n in [1u64, 8, len, 200] {
                out.push(Op::arg(OpK::Reserve, n));
            }
            out.push(Op::arg(OpK::TryReserve, 8));
            out.push(Op::arg(OpK::TryReserve, len + 1));
            for n in [8u64, len, len + 1] {
                out.push(Op::arg(OpK::ShrinkTo, n));
            }
            out.push(Op::k(OpK::ShrinkToFit));
            out.push(Op::k(OpK::CloneReplace));
            for s in 0..8 {
                out.push(Op::arg(OpK::CloneFromInto, s));
            }
        }
        // small-universe shaping (E2): fixed arguments so that the state space stays finite
        "shape2" => {
            for p in [0u64, 2, 3, 4] {
                out.push(Op::arg(OpK::Retain, p));
            }
            out.push(Op::arg(OpK::DrainFilter, iter_arg(4, MODE_CONSUME, 0)));
            out.push(Op::arg(OpK::DrainFilter, iter_arg(2, MODE_CONSUME, 0)));
            out.push(Op::arg(OpK::Drain, iter_arg(0, MODE_CONSUME, 0)));
            for n in [1u64, 8, 32] {
                out.push(Op::arg(OpK::Reserve, n));
            }
            out.push(Op::arg(OpK::TryReserve, 8));
            out.push(Op::arg(OpK::ShrinkTo, 8));
            out.push(Op::k(OpK::ShrinkToFit));
            out.push(Op::k(OpK::CloneReplace));
            out.push(Op::arg(OpK::CloneFromInto, 2));
            out.push(Op::arg(OpK::CloneFromInto, 4));
            out.push(Op::k(OpK::Clear));
            out.push(Op::k(OpK::IterMutWrite));
        }
        // a source whose size_hint claims an exact length that is too small (0 / 1 / 3 for 12 items)
        "hintlie" => {
            for h in 4..7 {
                out.push(Op::arg(OpK::ExtendHint, h));
            }
        }
        "fill" => out.push(Op::k(OpK::FillToCap)),
        // one bulk call that adds thousands of keys (pre-allocation caps, budgets derived from size hints)
        "bulkbig" => {
            for n in [4097u64, 9000, 20_000] {
                out.push(Op::arg(OpK::ExtendFresh, n));
            }
            out.push(Op::new(OpK::ExtendOverlap, c.next_key.saturating_sub(2), 9000));
        }
        // PathBuf keys queried as &Path in several spellings, on a mirror of the current contents
        "borrow" => out.push(Op::k(OpK::BorrowProbe)),
        "iter" => {
            for kind in 0..IK_COUNT {
                out.push(Op::arg(OpK::IterCheck, kind | 1 << 8));
            }
            // every consumption prefix for the consuming iterators
            let ps: Vec<u64> = if c.len <= 40 { (0..=len).collect() } else { vec![0, 1, len / 2, len.saturating_sub(1), len] };
            out.push(Op::arg(OpK::Drain, iter_arg(0, MODE_CONSUME, 0)));
            out.push(Op::arg(OpK::IntoIter, iter_arg(0, MODE_CONSUME, 0)));
            for &p in &ps {
                for mode in [MODE_DROP_AT, MODE_FORGET_AT] {
                    out.push(Op::arg(OpK::Drain, iter_arg(0, mode, p)));
                    out.push(Op::arg(OpK::IntoIter, iter_arg(0, mode, p)));
                }
            }
            // the rest consumed through fold / count / last / nth instead of next
            let mut qs = vec![0, 1, len / 2, len.saturating_sub(1), len];
            qs.sort();
            qs.dedup();
            for &p in &qs {
                for mode in MODES_PROVIDED {
                    out.push(Op::arg(OpK::Drain, iter_arg(0, mode, p)));
                    out.push(Op::arg(OpK::IntoIter, iter_arg(0, mode, p)));
                }
            }
            out.push(Op::arg(OpK::Drain, iter_arg(0, MODE_NTH_AT, PREFIX_MAX)));
            out.push(Op::arg(OpK::IntoIter, iter_arg(0, MODE_NTH_AT, PREFIX_MAX)));
            // a consumer that panics inside fold / for_each (first, second, middle, last-but-one, never)
            for &p in &qs {
                out.push(Op::arg(OpK::Drain, iter_arg(0, MODE_FOLD_PANIC_AT, p)));
                out.push(Op::arg(OpK::IntoIter, iter_arg(0, MODE_FOLD_PANIC_AT, p)));
            }
        }
        "iterlite" => {
            out.push(Op::arg(OpK::Drain, iter_arg(0, MODE_CONSUME, 0)));
            out.push(Op::arg(OpK::IntoIter, iter_arg(0, MODE_CONSUME, 0)));
            for p in [0, 1, len / 2] {
                for mode in [MODE_DROP_AT, MODE_FORGET_AT] {
                    out.push(Op::arg(OpK::Drain, iter_arg(0, mode, p)));
                    out.push(Op::arg(OpK::IntoIter, iter_arg(0, mode, p)));
                }
            }
            for (mode, p) in [(MODE_FOLD_AT, 0), (MODE_COUNT_AT, 1), (MODE_LAST_AT, 0), (MODE_NTH_AT, len / 2), (MODE_NTH_AT, PREFIX_MAX), (MODE_FOLD_PANIC_AT, 0), (MODE_FOLD_PANIC_AT, len / 2)] {
                out.push(Op::arg(OpK::Drain, iter_arg(0, mode, p)));
                out.push(Op::arg(OpK::IntoIter, iter_arg(0, mode, p)));
            }
        }
        "pred" | "predlite" => {
            let reps = c.classes.present_reps();
            let nrep = if name == "pred" { reps.len() as u64 } else { 0 };
            let mut preds: Vec<(u32, u64)> = vec![(0, 0), (0, 1), (0, 2), (0, 3), (0, 4), (0, 5)];
            for &r in &reps {
                preds.push((r, 6));
                preds.push((r, 7));
            }
            if nrep > 0 {
                for mask in 0..(1u64 << nrep) {
                    preds.push((0, 8 | mask << 20));
                    preds.push((0, 9 | mask << 20));
                }
            }
            for &(k, p) in &preds {
                out.push(Op::new(OpK::Retain, k, p));
                out.push(Op::new(OpK::Retain, k, p | 1 << 16));
                out.push(Op::new(OpK::DrainFilter, k, iter_arg(p, MODE_CONSUME, 0)));
            }
            // early drop / forget at every prefix for the structural predicates
            let ps: Vec<u64> = if c.len <= 40 { (0..=len).collect() } else { vec![0, 1, 2, len / 2, len.saturating_sub(1)] };
            for p in [1u64, 2, 3, 4] {
                for &pre in &ps {
                    out.push(Op::arg(OpK::DrainFilter, iter_arg(p, MODE_DROP_AT, pre)));
                    out.push(Op::arg(OpK::DrainFilter, iter_arg(p, MODE_FORGET_AT, pre)));
                }
            }
            for p in [1u64, 2] {
                for mode in MODES_PROVIDED {
                    for pre in [0u64, 1] {
                        out.push(Op::arg(OpK::DrainFilter, iter_arg(p, mode, pre)));
                    }
                }
            }
        }
        // try_reserve while allocations larger than the current table fail
        "mempress" => {
            let free = (c.cap - c.len) as u64;
            for n in [0u64, 1, free, free + 1, free + 2, c.len as u64, c.cap as u64] {
                out.push(Op::new(OpK::TryReserve, 1, n));
            }
        }
        // three bulk removals that leave tombstones behind (even keys / old-table elements / main-table elements kept)
        "rt3" => {
            for code in [4u64, 2, 3] {
                out.push(Op::arg(OpK::Retain, code));
            }
        }
        // shrink_to with every small argument
        "shr64" => {
            for m in 0..=64u64 {
                out.push(Op::arg(OpK::ShrinkTo, m));
            }
        }
        // three reserve calls that start a resize of a table that is not full
        "rsv3" => {
            let cap = c.cap as u64;
            for n in [cap - len + 1, cap + 1, 2 * cap + 4] {
                out.push(Op::arg(OpK::Reserve, n));
            }
        }
        // a filter that spares / takes exactly one class representative, dropped or forgotten after every prefix
        "preddrop" => {
            let reps = c.classes.present_reps();
            let ps: Vec<u64> = if c.len <= 48 { (0..=len).collect() } else { vec![0, 1, 2, len / 2, len.saturating_sub(1)] };
            for &r in &reps {
                for code in [6u64, 7] {
                    for &pre in &ps {
                        out.push(Op::new(OpK::DrainFilter, r, iter_arg(code, MODE_DROP_AT, pre)));
                        out.push(Op::new(OpK::DrainFilter, r, iter_arg(code, MODE_FORGET_AT, pre)));
                    }
                }
            }
        }
        "cap" => {
            let cap = c.cap as u64;
            let free = cap - len;
            let mut rs = vec![0u64, 1, free.saturating_sub(1), free, free + 1, cap, 2 * cap, 2 * cap + 4, len, len + 1];
            rs.sort();
            rs.dedup();
            for &n in &rs {
                out.push(Op::arg(OpK::Reserve, n));
                out.push(Op::arg(OpK::TryReserve, n));
            }
            let mut ms = vec![0u64, len.saturating_sub(1), len, len + 1, len + 2, len + len / 8 + 1, cap.saturating_sub(1), cap, cap + 1, cap + 2];
            ms.sort();
            ms.dedup();
            for &m in &ms {
                out.push(Op::arg(OpK::ShrinkTo, m));
            }
            out.push(Op::k(OpK::ShrinkToFit));
        }
        "capall" => {
            let cap = c.cap as u64;
            for n in 0..=(2 * cap + 4) {
                out.push(Op::arg(OpK::Reserve, n));
                out.push(Op::arg(OpK::TryReserve, n));
            }
            for m in 0..=(cap + 2) {
                out.push(Op::arg(OpK::ShrinkTo, m));
            }
            out.push(Op::k(OpK::ShrinkToFit));
        }
        "caphuge" => {
            // windows at the usize / isize limits (try_reserve everywhere; reserve only where the
            // outcome must be a panic before any allocation: see DESIGN.md, C10)
            let span = len + 2 * ((len + 7) / 8) + 8;
            for j in 0..=span {
                out.push(Op::arg(OpK::TryReserve, u64::MAX - j));
                out.push(Op::arg(OpK::Reserve, u64::MAX - j));
                out.push(Op::arg(OpK::TryReserve, (i64::MAX as u64) - j));
                out.push(Op::arg(OpK::TryReserve, (i64::MAX as u64) + j));
                out.push(Op::arg(OpK::Reserve, (i64::MAX as u64) + 1 + j));
                // shrink_to takes any usize too (its head-room arithmetic must not wrap either)
                out.push(Op::arg(OpK::ShrinkTo, u64::MAX - j));
                out.push(Op::arg(OpK::ShrinkTo, (i64::MAX as u64) - j));
                out.push(Op::arg(OpK::ShrinkTo, (i64::MAX as u64) + 1 + j));
            }
            // (the too-small exact hints add a dozen fresh keys: not inside a fixed key universe)
            for h in 0..(if c.universe > 0 { 4 } else { 7 }) {
                out.push(Op::arg(OpK::ExtendHint, h));
            }
            // requests the allocator itself refuses (Err(AllocError)): far beyond RAM, below the layout limit
            for sh in [46u32, 52] {
                out.push(Op::arg(OpK::TryReserve, 1u64 << sh));
            }
            for sh in [60u32, 61, 62, 63] {
                out.push(Op::arg(OpK::TryReserve, 1u64 << sh));
                out.push(Op::arg(OpK::TryReserve, (1u64 << sh) - 1));
            }
        }
        "withcap" => {
            if c.layer == 0 && c.len == 0 && c.next_key == 0 {
                for n in 0..=1100u64 {
                    out.push(Op::arg(OpK::WithCapacity, n));
                }
                for sh in 11..=20u32 {
                    for d in [-1i64, 0, 1] {
                        out.push(Op::arg(OpK::WithCapacity, ((1i64 << sh) + d) as u64));
                    }
                }
            }
        }
        "skey" => {
            for &k in &ks {
                for op in [OpK::SInsert, OpK::SReplace, OpK::SRemove, OpK::STake, OpK::SGet, OpK::SContains, OpK::SGetOrInsert, OpK::SGetOrInsertOwned, OpK::SGetOrInsertWith] {
                    out.push(Op::key(op, k));
                }
                out.push(Op::new(OpK::SGetOrInsertWith, k, 1));
            }
        }
        "sshape" | "sshape2" => {
            let e2 = name == "sshape2";
            for p in [0u64, 2, 3, 4] {
                out.push(Op::arg(OpK::Retain, p));
                out.push(Op::arg(OpK::DrainFilter, iter_arg(p, MODE_CONSUME, 0)));
            }
            for &r in c.classes.present_reps().iter().take(if e2 { 0 } else { 8 }) {
                out.push(Op::new(OpK::Retain, r, 6));
                out.push(Op::new(OpK::Retain, r, 7));
            }
            out.push(Op::arg(OpK::DrainFilter, iter_arg(1, MODE_DROP_AT, 1)));
            out.push(Op::arg(OpK::DrainFilter, iter_arg(1, MODE_FORGET_AT, 1)));
            out.push(Op::arg(OpK::Drain, iter_arg(0, MODE_CONSUME, 0)));
            out.push(Op::arg(OpK::Drain, iter_arg(0, MODE_DROP_AT, 1)));
            out.push(Op::arg(OpK::IntoIter, iter_arg(0, MODE_DROP_AT, 1)));
            let rs: Vec<u64> = if e2 { vec![1, 8, 32] } else { vec![1, 8, len, 200] };
            for n in rs {
                out.push(Op::arg(OpK::Reserve, n));
            }
            out.push(Op::arg(OpK::TryReserve, 8));
            out.push(Op::arg(OpK::ShrinkTo, 8));
            out.push(Op::k(OpK::ShrinkToFit));
            out.push(Op::k(OpK::CloneReplace));
            out.push(Op::arg(OpK::CloneFromInto, 2));
            out.push(Op::k(OpK::Clear));
            out.push(Op::k(OpK::FromIter));
            out.push(Op::k(OpK::IterCheck));
            if e2 {
                out.push(Op::new(OpK::ExtendOverlap, 0, c.universe.max(1) as u64));
                out.push(Op::new(OpK::ExtendRef, 0, c.universe.max(1) as u64));
            } else {
                out.push(Op::arg(OpK::ExtendFresh, 3));
                out.push(Op::arg(OpK::ExtendFresh, 20));
                out.push(Op::new(OpK::ExtendOverlap, c.classes.old_next.or(c.classes.main_a).unwrap_or(0), 4));
                out.push(Op::new(OpK::ExtendOverlap, c.next_key.saturating_sub(2), 5));
                out.push(Op::new(OpK::ExtendRef, c.next_key.saturating_sub(2), 5));
                out.push(Op::new(OpK::ExtendRef, c.next_key.saturating_sub(2), 5 | 1 << 8));
                out.push(Op::new(OpK::ExtendRef, c.classes.old_next.or(c.classes.main_a).unwrap_or(0), 6 | 2 << 8));
            }
        }
        "siter" => {
            out.push(Op::k(OpK::IterCheck));
            let ps: Vec<u64> = if c.len <= 40 { (0..=len).collect() } else { vec![0, 1, len / 2, len.saturating_sub(1), len] };
            out.push(Op::arg(OpK::Drain, iter_arg(0, MODE_CONSUME, 0)));
            out.push(Op::arg(OpK::IntoIter, iter_arg(0, MODE_CONSUME, 0)));
            for &p in &ps {
                for mode in [MODE_DROP_AT, MODE_FORGET_AT] {
                    out.push(Op::arg(OpK::Drain, iter_arg(0, mode, p)));
                    out.push(Op::arg(OpK::IntoIter, iter_arg(0, mode, p)));
                    for pred in [1u64, 2, 4] {
                        out.push(Op::arg(OpK::DrainFilter, iter_arg(pred, mode, p)));
                    }
                }
            }
            let mut qs = vec![0, 1, len / 2, len];
            qs.sort();
            qs.dedup();
            for &p in &qs {
                for mode in MODES_PROVIDED {
                    out.push(Op::arg(OpK::Drain, iter_arg(0, mode, p)));
                    out.push(Op::arg(OpK::IntoIter, iter_arg(0, mode, p)));
                    out.push(Op::arg(OpK::DrainFilter, iter_arg(1, mode, p)));
                }
            }
            out.push(Op::arg(OpK::Drain, iter_arg(0, MODE_NTH_AT, PREFIX_MAX)));
            out.push(Op::arg(OpK::IntoIter, iter_arg(0, MODE_NTH_AT, PREFIX_MAX)));
            out.push(Op::arg(OpK::DrainFilter, iter_arg(1, MODE_NTH_AT, PREFIX_MAX)));
            for &p in &qs {
                out.push(Op::arg(OpK::Drain, iter_arg(0, MODE_FOLD_PANIC_AT, p)));
                out.push(Op::arg(OpK::IntoIter, iter_arg(0, MODE_FOLD_PANIC_AT, p)));
                out.push(Op::arg(OpK::DrainFilter, iter_arg(1, MODE_FOLD_PANIC_AT, p)));
            }
        }
        // deliberate logic errors (safety-only afterwards)
        "wrong" => {
            for &k in &ks {
                for a in 0..3 {
                    out.push(Op::new(OpK::RawInsertWrongHash, k, a));
                }
            }
        }
        "clone" => {
            out.push(Op::k(OpK::CloneReplace));
            for s in 0..8 {
                out.push(Op::arg(OpK::CloneFromInto, s));
            }
        }
        _ => panic!("unknown alphabet block {}", name),
    }
}

/// `a+b/c+d`: layer 0 uses blocks a,b; every later layer uses c,d (the last part repeats).
pub fn by_name(name: &str) -> Box<dyn Fn(&AlphaCtx) -> Vec<Op>> {
    let layers: Vec<Vec<String>> = name.split('/').map(|l| l.split('+').map(|s| s.to_string()).collect()).collect();
    Box::new(move |c: &AlphaCtx| {
        let mut out = vec![];
        let blocks = &layers[c.layer.min(layers.len() - 1)];
        for b in blocks {
            block(b, c, &mut out);
        }
        // de-duplicate, keep order (simplest first)
        let mut seen = std::collections::HashSet::new();
        out.retain(|o| seen.insert(*o));
        out
    })
}

/// Ops whose successor is checked but not expanded further (they leave the key universe).
pub fn is_probe(op: Op) -> bool {
    matches!(op.k, OpK::FillToCap | OpK::BorrowProbe)
}
