//! Shard specification, dispatch and result serialisation.

use crate::alpha;
use crate::elem::Tk;
use crate::engine::{self, E1Params, E2Params, Limits, Outcome, World};
use crate::mapworld::{Cfg, Flags, MapWorld};
use crate::op::Op;
use crate::setworld::SetWorld;
use serde::{Deserialize, Serialize};

#[derive(Serialize, Deserialize, Clone, Debug, Default)]
pub struct ShardSpec {
    pub prop: String,
    pub engine: String,
    pub world: String,
    pub ty: String,
    pub hk: u8,
    pub seed: u64,
    pub cap0: usize,
    pub alpha: String,
    pub flags: Vec<String>,
    #[serde(default)]
    pub n: usize,
    #[serde(default)]
    pub d: usize,
    #[serde(default)]
    pub concrete_layers: usize,
    #[serde(default)]
    pub universe: u32,
    #[serde(default)]
    pub max_depth: usize,
    pub max_states: u64,
    pub max_secs: f64,
    pub profile: String,
    #[serde(default)]
    pub trace_chunk: Option<u64>,
    #[serde(default)]
    pub extra: std::collections::BTreeMap<String, String>,
}

impl ShardSpec {
    pub fn label(&self) -> String {
        format!("{}-{}-{}-{}-{}-s{}-c{}-{}", self.prop, self.engine, self.world, self.ty, crate::hasher::H_NAMES[self.hk as usize & 3], self.seed, self.cap0, self.profile)
    }
    pub fn cfg(&self) -> Cfg {
        let mut f = Flags::default();
        for s in &self.flags {
            match s.as_str() {
                "c02" => f.c02 = true,
                "c03" => f.c03 = true,
                "cursor" => f.cursor = true,
                "c10" => f.c10 = true,
                "audit_each" => f.audit_each = true,
                "cheap" => f.cheap = true,
                other => panic!("unknown flag {}", other),
            }
        }
        Cfg { hk: self.hk, seed: self.seed, cap0: self.cap0, flags: f }
    }
}

#[derive(Serialize, Deserialize, Clone, Debug, Default)]
pub struct ViolRec {
    pub kind: String,
    pub msg: String,
    pub history: Vec<String>,
    pub sig: String,
}

#[derive(Serialize, Deserialize, Clone, Debug, Default)]
pub struct ShardResult {
    pub spec: ShardSpec,
    pub states: u64,
    pub transitions: u64,
    pub executions: u64,
    pub steps: u64,
    pub max_depth: usize,
    pub layers: Vec<(u64, u64)>,
    pub capped: Option<String>,
    pub fixpoint: bool,
    pub phases: [u64; 4],
    pub distinct_obs: u64,
    pub violations: Vec<ViolRec>,
    pub viol_count: u64,
    pub samples: Vec<Vec<String>>,
    pub chunk_digests: Vec<u64>,
    pub digest: u64,
    pub wall_s: f64,
    #[serde(default)]
    pub extra: std::collections::BTreeMap<String, serde_json::Value>,
}

pub fn ops_to_strings(h: &[Op]) -> Vec<String> {
    h.iter().map(|o| o.to_string()).collect()
}
pub fn strings_to_ops(h: &[String]) -> Result<Vec<Op>, String> {
    h.iter().map(|s| Op::parse(s).ok_or_else(|| format!("bad op {}", s))).collect()
}

pub fn result_of(spec: &ShardSpec, o: Outcome) -> ShardResult {
    ShardResult {
        spec: spec.clone(),
        states: o.states,
        transitions: o.transitions,
        executions: o.executions,
        steps: o.steps,
        max_depth: o.max_depth,
        layers: o.layers,
        capped: o.capped,
        fixpoint: o.fixpoint,
        phases: o.phases,
        distinct_obs: o.distinct_obs,
        violations: o
            .violations
            .iter()
            .map(|v| ViolRec {
                kind: v.kind.clone(),
                msg: v.msg.clone(),
                history: ops_to_strings(&v.history),
                // only for single-collection histories is "the last op" the triggering call
                sig: engine::sig_of(&v.kind, &v.msg, if matches!(spec.engine.as_str(), "e1" | "e2") { v.history.last().copied() } else { None }),
            })
            .collect(),
        viol_count: o.viol_count,
        samples: o.samples.iter().map(|h| ops_to_strings(h)).collect(),
        chunk_digests: o.chunk_digests,
        digest: o.digest,
        wall_s: o.wall_s,
        extra: Default::default(),
    }
}

fn run_generic<W: World>(spec: &ShardSpec, cur: Option<&str>, trace: Option<(u64, String)>) -> Outcome {
    let cfg = spec.cfg();
    let alpha = alpha::by_name(&spec.alpha);
    let lim = Limits { max_states: spec.max_states, max_secs: spec.max_secs, max_viol: 12 };
    match spec.engine.as_str() {
        "e1" => engine::run_e1::<W>(&cfg, &E1Params { n: spec.n, d: spec.d, concrete_layers: spec.concrete_layers, collect_family: false, from: spec.extra.get("from").and_then(|s| s.parse().ok()).unwrap_or(0) }, &*alpha, &lim, cur, trace),
        "e2" => engine::run_e2::<W>(&cfg, &E2Params { universe: spec.universe, max_depth: if spec.max_depth == 0 { usize::MAX } else { spec.max_depth } }, &*alpha, &lim, cur, trace),
        e => panic!("engine {} is not generic", e),
    }
}

/// E7: one map grown to `n` elements with the O(1) per-call monitors on every call; tombstone
/// pattern `stride` (remove every stride-th key once the map holds it), lookups interleaved.
pub fn run_e7(spec: &ShardSpec, cur: Option<&str>) -> Outcome {
    match spec.ty.as_str() {
        "tk" => run_e7_t::<Tk>(spec, cur),
        "big" => run_e7_t::<crate::elem::Big>(spec, cur),
        _ => run_e7_t::<u32>(spec, cur),
    }
}

fn run_e7_t<T: crate::elem::El>(spec: &ShardSpec, cur: Option<&str>) -> Outcome {
    use crate::engine::{reset_exec, CurFile, FoundViol, PROGRESS};
    use crate::op::OpK;
    let t0 = std::time::Instant::now();
    let cfg = spec.cfg();
    let stride: u32 = spec.extra.get("stride").and_then(|s| s.parse().ok()).unwrap_or(0);
    // full audit (contents, every get, cursor) every `audit_every` growth steps; 0 = only at the end
    let audit_every: u32 = spec.extra.get("audit_every").and_then(|s| s.parse().ok()).unwrap_or(0);
    // richer call mix: entry / raw-entry / get_mut / remove_entry on keys of either table
    let mix = spec.extra.get("mix").map_or(false, |s| s == "1");
    // head-room probe (C04) shortly after every resize start
    let fill = spec.extra.get("fill").map_or(false, |s| s == "1");
    // at every resize start: remove len/shrink_frac of the oldest keys, shrink_to_fit, then the
    // head-room probe (a pending resize must keep its head-room through a shrink at any size)
    let shrink_frac: u32 = spec.extra.get("shrink_frac").and_then(|s| s.parse().ok()).unwrap_or(0);
    let mut next_remove: u32 = 0;
    let mut iters: u64 = 0;
    // at every resize start: a reserve / try_reserve / shrink_to with a boundary argument (rotating),
    // then the head-room probe (C10 at scale)
    let reserve_mode = spec.extra.get("reserve_at_resize").map_or(false, |s| s == "1");
    let mut since_resize = u32::MAX;
    let mut out = Outcome::default();
    let mut curf = CurFile::new(cur);
    reset_exec();
    // at every resize start: take every element out of the old table again through the removal APIs
    // (remove / remove_entry / entry removal in turn), full audit once it is empty - old tables of every size
    let drain_old = spec.extra.get("drain_old").map_or(false, |s| s == "1");
    // once per resize, as soon as it is feasible: remove just enough main-table elements that what the map
    // must keep room for (len + the insertions needed to move the leftovers) equals a table capacity
    // exactly, shrink_to_fit (zero slack), then the head-room probe
    // ("tight_shrink" = d + 1: the need is made d above a table capacity - with d = 0 the fit is exact, with
    // d > 0 a head-room estimate that is d too small still picks the smaller table)
    let tight_delta: usize = spec.extra.get("tight_shrink").and_then(|s| s.parse::<usize>().ok()).unwrap_or(0);
    let tight_shrink = tight_delta > 0;
    let tight_delta = tight_delta.saturating_sub(1);
    let mut tight_done = true;
    let mut w = match MapWorld::<T>::create(&cfg) {
        Ok(w) => w,
        Err(v) => {
            out.violations.push(FoundViol { kind: v.kind, msg: v.msg, history: vec![], step: 0 });
            out.viol_count = 1;
            return out;
        }
    };
    let mut hist_tail: std::collections::VecDeque<Op> = Default::default();
    let mut resizes = 0u64;
    let mut max_old = 0usize;
    let mut obs_seen = std::collections::HashSet::new();
    let mut k: u32 = 0;
    let mut fail: Option<(crate::op::Viol, Op)> = None;
    let mut fail_late: Option<crate::op::Viol> = None;
    let mut do_op = |w: &mut MapWorld<T>, op: Op, out: &mut Outcome, hist_tail: &mut std::collections::VecDeque<Op>| -> bool {
        hist_tail.push_back(op);
        if hist_tail.len() > 24 {
            hist_tail.pop_front();
        }
        out.transitions += 1;
        out.steps += 1;
        match w.apply(op).and_then(|o| w.audit(false).map(|_| o)) {
            Ok(o) => {
                obs_seen.insert(o);
                true
            }
            Err(v) => {
                fail = Some((v, op));
                false
            }
        }
    };
    'grow: while w.r.len() < spec.n && (k as usize) < 4 * spec.n.max(64) {
        iters += 1;
        if iters % 1024 == 1 {
            curf.put(&[Op::arg(OpK::ExtendFresh, k as u64)], None);
            PROGRESS.fetch_add(1, std::sync::atomic::Ordering::Relaxed);
            if t0.elapsed().as_secs_f64() > spec.max_secs {
                out.capped = Some(format!("time cap {}s at {} elements", spec.max_secs, w.r.len()));
                break;
            }
        }
        let before_old = w.stats().old.is_some();
        if !do_op(&mut w, Op::key(OpK::Insert, k), &mut out, &mut hist_tail) {
            break 'grow;
        }
        let st = w.stats();
        if !before_old && st.old.is_some() {
            resizes += 1;
            out.phases[1] += 1;
            since_resize = 0;
            // (every other resize: a map shrunk to zero slack and filled resizes again at once, at the same size)
            tight_done = resizes % 2 == 0;
        } else if since_resize != u32::MAX {
            since_resize += 1;
        }
        if reserve_mode && since_resize == 1 {
            let free = (w.m.capacity() - w.m.len()) as u64;
            let len = w.m.len() as u64;
            let menu = [
                Op::arg(OpK::Reserve, free.saturating_sub(1)),
                Op::arg(OpK::Reserve, free),
                Op::arg(OpK::Reserve, free + 1),
                Op::arg(OpK::TryReserve, free + len / 8),
                Op::arg(OpK::Reserve, len),
                Op::arg(OpK::ShrinkTo, len + len / 16),
                Op::arg(OpK::ShrinkTo, len + len / 8 + 1),
                Op::arg(OpK::TryReserve, 2 * free + 4),
            ];
            let op = menu[(resizes as usize + spec.cap0) % menu.len()];
            for o in [op, Op::k(OpK::FillToCap)] {
                if !do_op(&mut w, o, &mut out, &mut hist_tail) {
                    break 'grow;
                }
            }
            k = w.next_key;
            since_resize = u32::MAX;
        }
        if tight_shrink && !tight_done && since_resize != u32::MAX && since_resize >= 1 {
            if let Some((l, _, _)) = st.old {
                let r = griddle::verif::R;
                let need = st.main_len + l + (l + r - 1) / r;
                // largest table capacity not above `need`
                let mut t = 3usize;
                let mut b = 8usize;
                while (if b == 8 { 7 } else { b / 8 * 7 }) <= need {
                    t = if b == 8 { 7 } else { b / 8 * 7 };
                    b *= 2;
                }
                let x = (need - t).wrapping_sub(tight_delta);
                if l > 0 && need - t >= tight_delta && x <= st.main_len && t >= l + (l + r - 1) / r {
                    tight_done = true;
                    let d = w.dump();
                    let main_ids: Vec<u32> = d.main.elems.iter().filter(|&&e| e != u64::MAX).map(|e| (e >> 8) as u32).take(x).collect();
                    for id in main_ids {
                        if !do_op(&mut w, Op::key(OpK::Remove, id), &mut out, &mut hist_tail) {
                            break 'grow;
                        }
                    }
                    for op in [Op::k(OpK::ShrinkToFit), Op::k(OpK::FillToCap)] {
                        if !do_op(&mut w, op, &mut out, &mut hist_tail) {
                            break 'grow;
                        }
                    }
                    k = w.next_key;
                    since_resize = u32::MAX;
                }
            } else {
                tight_done = true;
            }
        }
        if drain_old && since_resize == 1 {
            let ids = w.old_ids(&w.dump());
            let n_old = ids.len();
            for (j, id) in ids.into_iter().enumerate() {
                let op = match j % 3 {
                    0 => Op::key(OpK::Remove, id),
                    1 => Op::key(OpK::RemoveEntry, id),
                    _ => Op::new(OpK::EntryChain, id, crate::chain::encode(&[crate::chain::O_REMOVE])),
                };
                if !do_op(&mut w, op, &mut out, &mut hist_tail) {
                    break 'grow;
                }
                if j + 1 == n_old || j + 2 == n_old {
                    // one left / none left: the cursor, iteration and len must agree exactly here
                    if let Err(v) = w.audit(true) {
                        hist_tail.push_back(Op::arg(OpK::IterCheck, 0));
                        fail_late = Some(v);
                        break 'grow;
                    }
                }
            }
            since_resize = u32::MAX;
        }
        if shrink_frac > 0 && since_resize == 1 {
            let m = (w.r.len() as u32 / shrink_frac).max(1);
            for _ in 0..m {
                if !do_op(&mut w, Op::key(OpK::Remove, next_remove), &mut out, &mut hist_tail) {
                    break 'grow;
                }
                next_remove += 1;
            }
            for op in [Op::k(OpK::ShrinkToFit), Op::k(OpK::FillToCap)] {
                if !do_op(&mut w, op, &mut out, &mut hist_tail) {
                    break 'grow;
                }
            }
            k = w.next_key;
            since_resize = u32::MAX;
        }
        if fill && (since_resize == 2 || since_resize == 9) {
            if !do_op(&mut w, Op::k(OpK::FillToCap), &mut out, &mut hist_tail) {
                break 'grow;
            }
            k = w.next_key;
            since_resize = u32::MAX;
        }
        if audit_every > 0 && k % audit_every == 0 {
            if let Err(v) = w.audit(true) {
                hist_tail.push_back(Op::arg(OpK::IterCheck, 0));
                fail_late = Some(v);
                break 'grow;
            }
        }
        if mix && k % 5 == 0 && k > 16 {
            use crate::chain::*;
            let old_key = k / 2; // often still in the old table while a resize is pending
            let ops = [
                Op::key(OpK::GetMut, old_key),
                Op::new(OpK::EntryChain, k - 3, encode(&[O_GET_MUT])),
                Op::new(OpK::EntryChain, old_key + 1, encode(&[E_AND_MODIFY, E_OR_INSERT])),
                Op::new(OpK::RawChain, old_key + 2, encode(&[RO_GET_MUT]) << 2),
                Op::key(OpK::RemoveEntry, old_key + 3),
                Op::new(OpK::EntryChain, old_key + 3, encode(&[E_OR_INSERT, R_WRITE])),
                Op::new(OpK::EntryChain, old_key + 4, encode(&[O_REPLACE_WITH_SOME, O_GET])),
                Op::key(OpK::GetKeyValue, old_key + 5),
                Op::key(OpK::ContainsKey, k + 7_000_000),
            ];
            if !do_op(&mut w, ops[(k / 5) as usize % ops.len()], &mut out, &mut hist_tail) {
                break 'grow;
            }
        }
        if let Some(o) = st.old {
            max_old = max_old.max(o.0);
            out.phases[2] += 1;
        } else {
            out.phases[0] += 1;
        }
        out.states += 1;
        // lookups: a present key (old or new table, wherever it is) and an absent one
        if k % 3 == 0 {
            for q in [k / 2, k + 1_000_000] {
                if !do_op(&mut w, Op::key(OpK::Get, q), &mut out, &mut hist_tail) {
                    break 'grow;
                }
            }
        }
        if k % 7 == 0 && !do_op(&mut w, Op::key(OpK::Insert, k / 3), &mut out, &mut hist_tail) {
            break 'grow; // overwrite (possibly of an old-table element)
        }
        if stride > 0 && k % stride == 0 && k >= 2 * stride {
            // remove an older key: tombstones in whichever table holds it
            if !do_op(&mut w, Op::key(OpK::Remove, k - stride - (k / stride) % stride), &mut out, &mut hist_tail) {
                break 'grow;
            }
        }
        k += 1;
    }
    let fail = fail.or(fail_late.map(|v| (v, Op::arg(OpK::IterCheck, 0))));
    if let Some((v, _op)) = fail {
        out.viol_count = 1;
        let mut h = vec![Op::arg(OpK::ExtendFresh, 0)];
        h.extend(hist_tail.iter().copied());
        out.violations.push(FoundViol { kind: v.kind, msg: format!("(sweep at {} elements, stride {}) {}", w.r.len(), stride, v.msg), history: h, step: 0 });
        std::mem::forget(w);
    } else {
        if let Err(v) = w.audit(true).and_then(|_| w.finish()) {
            out.viol_count = 1;
            out.violations.push(FoundViol { kind: v.kind, msg: v.msg, history: vec![], step: 0 });
        }
    }
    out.executions = 1;
    out.distinct_obs = obs_seen.len() as u64;
    out.samples.push(vec![Op::key(OpK::Insert, 0), Op::key(OpK::Get, 0), Op::key(OpK::Get, 1_000_000), Op::key(OpK::Insert, 0), Op::key(OpK::Insert, 1)]);
    out.max_depth = k as usize;
    out.wall_s = t0.elapsed().as_secs_f64();
    let _ = (resizes, max_old);
    out.layers.push((resizes, max_old as u64));
    out
}

pub fn run_shard(spec: &ShardSpec, cur: Option<&str>, trace: Option<(u64, String)>) -> ShardResult {
    if spec.engine == "e7" {
        let o = run_e7(spec, cur);
        let mut r = result_of(spec, o);
        if let Some(&(resizes, max_old)) = r.layers.first() {
            r.extra.insert("resizes_started".into(), serde_json::json!(resizes));
            r.extra.insert("largest_old_table_len".into(), serde_json::json!(max_old));
            r.extra.insert("elements_reached".into(), serde_json::json!(r.max_depth));
        }
        return r;
    }
    let o = match (spec.engine.as_str(), spec.world.as_str(), spec.ty.as_str()) {
        ("e1" | "e2", "map", "u32") => run_generic::<MapWorld<u32>>(spec, cur, trace),
        ("e1" | "e2", "map", "tk") => run_generic::<MapWorld<Tk>>(spec, cur, trace),
        ("e1" | "e2", "map", "zst") => run_generic::<MapWorld<()>>(spec, cur, trace),
        ("e1" | "e2", "map", "zd") => run_generic::<MapWorld<crate::elem::Zd>>(spec, cur, trace),
        ("e1" | "e2", "map", "big") => run_generic::<MapWorld<crate::elem::Big>>(spec, cur, trace),
        ("e1" | "e2", "map", "pod") => run_generic::<MapWorld<crate::elem::Pod>>(spec, cur, trace),
        ("e1" | "e2", "set", "pod") => run_generic::<SetWorld<crate::elem::Pod>>(spec, cur, trace),
        ("e1" | "e2", "set", "big") => run_generic::<SetWorld<crate::elem::Big>>(spec, cur, trace),
        ("e1" | "e2", "set", "zd") => run_generic::<SetWorld<crate::elem::Zd>>(spec, cur, trace),
        ("e1" | "e2", "set", "u32") => run_generic::<SetWorld<u32>>(spec, cur, trace),
        ("e1" | "e2", "set", "tk") => run_generic::<SetWorld<Tk>>(spec, cur, trace),
        ("e1" | "e2", "set", "zst") => run_generic::<SetWorld<()>>(spec, cur, trace),
        (e, w, t) => panic!("no shard runner for engine {} world {} type {}", e, w, t),
    };
    result_of(spec, o)
}

pub fn replay_shard(spec: &ShardSpec, hist: &[Op], quiet: bool) -> Result<(), (usize, crate::op::Viol)> {
    let cfg = spec.cfg();
    match (spec.world.as_str(), spec.ty.as_str()) {
        ("map", "u32") => engine::replay_verbose::<MapWorld<u32>>(&cfg, hist, quiet),
        ("map", "tk") => engine::replay_verbose::<MapWorld<Tk>>(&cfg, hist, quiet),
        ("map", "zst") => engine::replay_verbose::<MapWorld<()>>(&cfg, hist, quiet),
        ("map", "zd") => engine::replay_verbose::<MapWorld<crate::elem::Zd>>(&cfg, hist, quiet),
        ("map", "big") => engine::replay_verbose::<MapWorld<crate::elem::Big>>(&cfg, hist, quiet),
        ("map", "pod") => engine::replay_verbose::<MapWorld<crate::elem::Pod>>(&cfg, hist, quiet),
        ("set", "pod") => engine::replay_verbose::<SetWorld<crate::elem::Pod>>(&cfg, hist, quiet),
        ("set", "big") => engine::replay_verbose::<SetWorld<crate::elem::Big>>(&cfg, hist, quiet),
        ("set", "zd") => engine::replay_verbose::<SetWorld<crate::elem::Zd>>(&cfg, hist, quiet),
        ("set", "u32") => engine::replay_verbose::<SetWorld<u32>>(&cfg, hist, quiet),
        ("set", "tk") => engine::replay_verbose::<SetWorld<Tk>>(&cfg, hist, quiet),
        ("set", "zst") => engine::replay_verbose::<SetWorld<()>>(&cfg, hist, quiet),
        (w, t) => panic!("no replay for world {} type {}", w, t),
    }
}

pub fn transcript_shard(spec: &ShardSpec, hist: &[Op]) -> String {
    let cfg = spec.cfg();
    match (spec.world.as_str(), spec.ty.as_str()) {
        ("map", "u32") => engine::transcript_of::<MapWorld<u32>>(&cfg, hist),
        ("map", "tk") => engine::transcript_of::<MapWorld<Tk>>(&cfg, hist),
        ("map", "zst") => engine::transcript_of::<MapWorld<()>>(&cfg, hist),
        ("map", "zd") => engine::transcript_of::<MapWorld<crate::elem::Zd>>(&cfg, hist),
        ("map", "big") => engine::transcript_of::<MapWorld<crate::elem::Big>>(&cfg, hist),
        ("map", "pod") => engine::transcript_of::<MapWorld<crate::elem::Pod>>(&cfg, hist),
        ("set", "pod") => engine::transcript_of::<SetWorld<crate::elem::Pod>>(&cfg, hist),
        ("set", "big") => engine::transcript_of::<SetWorld<crate::elem::Big>>(&cfg, hist),
        ("set", "zd") => engine::transcript_of::<SetWorld<crate::elem::Zd>>(&cfg, hist),
        ("set", "u32") => engine::transcript_of::<SetWorld<u32>>(&cfg, hist),
        ("set", "tk") => engine::transcript_of::<SetWorld<Tk>>(&cfg, hist),
        ("set", "zst") => engine::transcript_of::<SetWorld<()>>(&cfg, hist),
        (w, t) => format!("no transcript for world {} type {}", w, t),
    }
}
