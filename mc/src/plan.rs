//! Per-property plans: which shards make up the quick / thorough check of each property.

use crate::engine::sig_of;
use crate::hasher::{H_CONST, H_GOOD, H_LOW, H_TAG};
use crate::orch::{self, collect, finish, run_jobs};
use crate::shard::{self, ShardResult, ShardSpec};
use serde_json::json;
use std::time::Instant;

pub fn par() -> usize {
    std::env::var("GMC_JOBS").ok().and_then(|s| s.parse().ok()).unwrap_or_else(|| std::thread::available_parallelism().map(|n| n.get()).unwrap_or(8))
}

#[allow(clippy::too_many_arguments)]
pub fn e1(prop: &str, ty: &str, hk: u8, cap0: usize, alpha: &str, flags: &[&str], n: usize, d: usize, concrete_layers: usize, profile: &str, max_secs: f64) -> ShardSpec {
    ShardSpec {
        prop: prop.into(),
        engine: "e1".into(),
        world: "map".into(),
        ty: ty.into(),
        hk,
        seed: 1,
        cap0,
        alpha: alpha.into(),
        flags: flags.iter().map(|s| s.to_string()).collect(),
        n,
        d,
        concrete_layers,
        universe: 0,
        max_depth: 0,
        max_states: 30_000_000,
        max_secs,
        profile: profile.into(),
        trace_chunk: None,
        extra: Default::default(),
    }
}
pub fn e2(prop: &str, ty: &str, hk: u8, alpha: &str, flags: &[&str], universe: u32, profile: &str, max_secs: f64) -> ShardSpec {
    ShardSpec {
        prop: prop.into(),
        engine: "e2".into(),
        world: "map".into(),
        ty: ty.into(),
        hk,
        seed: 1,
        cap0: 0,
        alpha: alpha.into(),
        flags: flags.iter().map(|s| s.to_string()).collect(),
        n: 0,
        d: 0,
        concrete_layers: 0,
        universe,
        max_depth: 0,
        max_states: 30_000_000,
        max_secs,
        profile: profile.into(),
        trace_chunk: None,
        extra: Default::default(),
    }
}

pub fn run_any_shard(spec: &ShardSpec, cur: Option<&str>, trace: Option<(u64, String)>) -> ShardResult {
    match spec.engine.as_str() {
        "e1" | "e2" => shard::run_shard(spec, cur, trace),
        e => panic!("unknown engine {}", e),
    }
}

pub fn replay_any(spec: &ShardSpec, hist: &[String], quiet: bool) -> i32 {
    match spec.engine.as_str() {
        "e1" | "e2" => {
            let ops = match shard::strings_to_ops(hist) {
                Ok(o) => o,
                Err(e) => {
                    eprintln!("{}", e);
                    return 2;
                }
            };
            match shard::replay_shard(spec, &ops, quiet) {
                Ok(()) => {
                    println!("replay: no violation");
                    0
                }
                Err((i, v)) => {
                    println!("replay: violation at step {}: {}: {}", i, v.kind, v.msg);
                    println!("SIG {}", sig_of(&v.kind, &v.msg, ops.get(i).copied().or(ops.last().copied())));
                    1
                }
            }
        }
        e => {
            eprintln!("no replay for engine {}", e);
            2
        }
    }
}

const HS4: [u8; 4] = [H_GOOD, H_LOW, H_CONST, H_TAG];

pub struct Plan {
    pub level: &'static str,
    pub shards: Vec<ShardSpec>,
    pub bounds: serde_json::Value,
    pub assumptions: Vec<String>,
}

fn base_assumptions() -> Vec<String> {
    vec![
        "x86_64, SSE2 group width 16, 64-bit usize; R read from griddle::verif::R".into(),
        "state de-duplication uses a 128-bit hash of the exact physical layout (a collision could hide a state)".into(),
        "the verif-hooks feature only adds read-only accessors; the code under test is otherwise the crate as built for users".into(),
        "hashers are the four deterministic harness hashers; VERIF_SEED is recorded but no random choice is made".into(),
    ]
}

pub fn plan(prop: &str, tier: &str) -> Option<Plan> {
    let q = tier != "thorough";
    let mut s: Vec<ShardSpec> = vec![];
    let level = "model_checking";
    let bounds;
    match prop {
        "C01" => {
            let full = "look+mut+ch1+bulk+shape";
            let lite = "look1+mut+ch0+shape";
            if q {
                for &hk in &HS4 {
                    s.push(e1(prop, "u32", hk, 0, full, &[], 64, 1, 1, "chk", 40.0));
                }
                for &hk in &[H_GOOD, H_LOW] {
                    s.push(e1(prop, "tk", hk, 0, full, &[], 33, 1, 1, "chk", 40.0));
                    s.push(e1(prop, "u32", hk, 0, lite, &[], 31, 2, 1, "chk", 40.0));
                    s.push(e2(prop, "u32", hk, "look1+mut+ch0+shape2", &[], 4, "chk", 40.0));
                }
                s.push(e1(prop, "u32", H_GOOD, 29, full, &[], 130, 1, 1, "chk", 40.0));
                s.push(e2(prop, "tk", H_GOOD, "look1+mut+ch0+shape2", &[], 3, "chk", 40.0));
                s.push(e2(prop, "zst", H_GOOD, "look+mut+ch1+bulk2+shape2", &[], 1, "chk", 40.0));
                s.push(e2(prop, "u32", H_CONST, "look1+mut+ch0+shape2", &[], 3, "chk", 40.0));
                bounds = json!({"E1": "d<=1 at N=64 (u32, 4 hashers, every concrete key) and N=130 (cap0=29); d<=2 at N=31 (class keys in layer 2)", "E2": "fixpoint over u=4 keys (HGood,HLow), u=3 (HConst, Tk), u=1 (ZST)"});
            } else {
                for &hk in &HS4 {
                    for &c in &[0usize, 1, 4, 29] {
                        s.push(e1(prop, "u32", hk, c, full, &[], 130, 1, 1, "chk", 600.0));
                    }
                    s.push(e1(prop, "tk", hk, 0, full, &[], 130, 1, 1, "chk", 600.0));
                    s.push(e1(prop, "u32", hk, 0, lite, &[], 64, 2, 1, "chk", 900.0));
                    s.push(e1(prop, "tk", hk, 0, lite, &[], 33, 2, 1, "chk", 900.0));
                }
                s.push(e1(prop, "u32", H_GOOD, 200, full, &[], 130, 1, 1, "chk", 600.0));
                s.push(e1(prop, "u32", H_GOOD, 0, "mut+ch0+shape", &[], 31, 3, 1, "chk", 900.0));
                for &hk in &[H_GOOD, H_LOW] {
                    s.push(e2(prop, "u32", hk, "look1+mut+ch0+shape2", &[], 6, "chk", 900.0));
                    s.push(e2(prop, "tk", hk, "look1+mut+ch0+shape2", &[], 5, "chk", 900.0));
                }
                for &hk in &[H_CONST, H_TAG] {
                    s.push(e2(prop, "u32", hk, "look1+mut+ch0+shape2", &[], 5, "chk", 900.0));
                    s.push(e2(prop, "tk", hk, "look1+mut+ch0+shape2", &[], 4, "chk", 900.0));
                }
                s.push(e2(prop, "zst", H_GOOD, "look+mut+ch1+bulk2+shape2", &[], 1, "chk", 600.0));
                s.push(e2(prop, "u32", H_GOOD, "look+mut+ch1+bulk2+shape2", &[], 3, "chk", 900.0));
                bounds = json!({"E1": "d<=1 at N=130 (4 hashers x initial capacities {0,1,4,29,200} x {u32,Tk}); d<=2 at N=64; d<=3 at N=31", "E2": "fixpoint over u=6 (HGood,HLow) / u=5 (HConst,HTag) keys; full alphabet at u=3; ZST"});
            }
        }
        _ => return None,
    }
    Some(Plan { level, shards: s, bounds, assumptions: base_assumptions() })
}

pub fn check(prop: &str, tier: &str, t0: Instant) -> i32 {
    let p = match plan(prop, tier) {
        Some(p) => p,
        None => {
            eprintln!("no plan for property {}", prop);
            return 2;
        }
    };
    let ends = run_jobs(p.shards, par(), &format!("{}-{}", prop, tier));
    let rep = collect(prop, tier, p.level, ends);
    let extra = json!({"bounds": p.bounds});
    let _ = orch::root();
    finish(rep, extra, p.assumptions, t0)
}
