//! Per-property plans: which shards make up the quick / thorough check of each property.

use crate::engine::sig_of;
use crate::hasher::{H_CONST, H_GOOD, H_LOW, H_TAG};
use crate::orch::{self, collect, finish, run_jobs};
use crate::shard::{self, ShardResult, ShardSpec};
use serde_json::json;
use std::time::Instant;

pub fn par() -> usize {
    std::env::var("GMC_JOBS").ok().and_then(|s| s.parse().ok()).unwrap_or_else(|| std::thread::available_parallelism().map(|n| n.get()).unwrap_or(8))
}

#[allow(clippy::too_many_arguments)]
pub fn e1(prop: &str, ty: &str, hk: u8, cap0: usize, alpha: &str, flags: &[&str], n: usize, d: usize, concrete_layers: usize, profile: &str, max_secs: f64) -> ShardSpec {
    ShardSpec {
        prop: prop.into(),
        engine: "e1".into(),
        world: "map".into(),
        ty: ty.into(),
        hk,
        seed: 1,
        cap0,
        alpha: alpha.into(),
        flags: flags.iter().map(|s| s.to_string()).collect(),
        n,
        d,
        concrete_layers,
        universe: 0,
        max_depth: 0,
        max_states: 30_000_000,
        max_secs,
        profile: profile.into(),
        trace_chunk: None,
        extra: Default::default(),
    }
}
pub fn e2(prop: &str, ty: &str, hk: u8, alpha: &str, flags: &[&str], universe: u32, profile: &str, max_secs: f64) -> ShardSpec {
    ShardSpec {
        prop: prop.into(),
        engine: "e2".into(),
        world: "map".into(),
        ty: ty.into(),
        hk,
        seed: 1,
        cap0: 0,
        alpha: alpha.into(),
        flags: flags.iter().map(|s| s.to_string()).collect(),
        n: 0,
        d: 0,
        concrete_layers: 0,
        universe,
        max_depth: 0,
        max_states: 30_000_000,
        max_secs,
        profile: profile.into(),
        trace_chunk: None,
        extra: Default::default(),
    }
}

pub fn run_any_shard(spec: &ShardSpec, cur: Option<&str>, trace: Option<(u64, String)>) -> ShardResult {
    match spec.engine.as_str() {
        "e1" | "e2" | "e7" => shard::run_shard(spec, cur, trace),
        "e3" => shard::result_of(spec, crate::pairs::run_e3(spec, cur)),
        "e3s" => shard::result_of(spec, crate::pairs::run_e3s(spec, cur)),
        "c14" => shard::result_of(spec, crate::c14::run_c14(spec, cur)),
        "e4" => shard::result_of(spec, crate::faults::run_e4(spec, cur)),
        e => panic!("unknown engine {}", e),
    }
}

/// Outcome digest of a history in this binary: per-step observations, or the violation.
pub fn outcome_of(spec: &ShardSpec, hist: &[String]) -> String {
    let ops = match shard::strings_to_ops(hist) {
        Ok(o) => o,
        Err(e) => return format!("bad history: {}", e),
    };
    match shard::replay_shard(spec, &ops, true) {
        Ok(()) => "ok".to_string(),
        Err((i, v)) => format!("step {}: {}", i, sig_of(&v.kind, &v.msg, None)),
    }
}

pub fn replay_any(spec: &ShardSpec, hist: &[String], quiet: bool) -> i32 {
    match spec.engine.as_str() {
        "e1" | "e2" => {
            let ops = match shard::strings_to_ops(hist) {
                Ok(o) => o,
                Err(e) => {
                    eprintln!("{}", e);
                    return 2;
                }
            };
            match shard::replay_shard(spec, &ops, quiet) {
                Ok(()) => {
                    println!("replay: no violation");
                    0
                }
                Err((i, v)) => {
                    println!("replay: violation at step {}: {}: {}", i, v.kind, v.msg);
                    println!("SIG {}", sig_of(&v.kind, &v.msg, ops.get(i).copied().or(ops.last().copied())));
                    1
                }
            }
        }
        "e7" => {
            // a sweep is one deterministic run: replaying it is running it again
            let res = shard::run_shard(spec, None, None);
            match res.violations.first() {
                None => {
                    println!("replay: no violation");
                    0
                }
                Some(v) => {
                    if !quiet {
                        println!("last calls of the sweep: {:?}", v.history);
                    }
                    println!("replay: violation: {}: {}", v.kind, v.msg);
                    println!("SIG {}", v.sig);
                    1
                }
            }
        }
        "e3" | "e3s" | "c14" | "e4" => {
            let ops = match shard::strings_to_ops(hist) {
                Ok(o) => o,
                Err(e) => {
                    eprintln!("{}", e);
                    return 2;
                }
            };
            let r = match spec.engine.as_str() {
                "e3" => crate::pairs::replay_e3(spec, &ops),
                "e3s" => crate::pairs::replay_e3s(spec, &ops),
                "e4" => crate::faults::replay_e4(spec, &ops),
                _ => crate::c14::replay_c14(spec, &ops),
            };
            match r {
                Ok(()) => {
                    println!("replay: no violation");
                    0
                }
                Err(v) => {
                    if !quiet {
                        println!("pair history: {:?}", ops);
                    }
                    println!("replay: violation: {}: {}", v.kind, v.msg);
                    println!("SIG {}", sig_of(&v.kind, &v.msg, None));
                    1
                }
            }
        }
        e => {
            eprintln!("no replay for engine {}", e);
            2
        }
    }
}

const HS4: [u8; 4] = [H_GOOD, H_LOW, H_CONST, H_TAG];

/// E7 scale sweep shard.
fn sweep(prop: &str, ty: &str, hk: u8, n: usize, flags: &[&str], extra: &[(&str, &str)], profile: &str, secs: f64) -> ShardSpec {
    let mut x = e1(prop, ty, hk, 0, "", flags, n, 0, 0, profile, secs);
    x.engine = "e7".into();
    for (k, v) in extra {
        x.extra.insert(k.to_string(), v.to_string());
    }
    x
}

/// E1 spot check: the growth path is walked to `n`, but only the states from `from` elements on are
/// branched from (one deviation, class keys) - large states around a particular resize.
#[allow(clippy::too_many_arguments)]
fn spot(prop: &str, ty: &str, hk: u8, alpha: &str, flags: &[&str], from: usize, n: usize, profile: &str, secs: f64) -> ShardSpec {
    let mut x = e1(prop, ty, hk, 0, alpha, flags, n, 1, 0, profile, secs);
    x.extra.insert("from".into(), from.to_string());
    x
}

fn as_set(mut x: ShardSpec) -> ShardSpec {
    x.world = "set".into();
    x
}

pub struct Plan {
    pub level: &'static str,
    pub shards: Vec<ShardSpec>,
    pub bounds: serde_json::Value,
    pub assumptions: Vec<String>,
}

fn base_assumptions() -> Vec<String> {
    vec![
        "x86_64, SSE2 group width 16, 64-bit usize; R read from griddle::verif::R".into(),
        "state de-duplication uses a 128-bit hash of the exact physical layout (a collision could hide a state)".into(),
        "the verif-hooks feature only adds read-only accessors; the code under test is otherwise the crate as built for users".into(),
        "hashers are the four deterministic harness hashers; VERIF_SEED is recorded but no random choice is made".into(),
    ]
}

pub fn plan(prop: &str, tier: &str) -> Option<Plan> {
    let q = tier != "thorough";
    let mut s: Vec<ShardSpec> = vec![];
    let level = if prop == "C07" { "fault_enumeration" } else { "model_checking" };
    let bounds;
    match prop {
        "C01" => {
            let full = "look+mut+ch1+bulk+shape";
            let lite = "look1+mut+ch0+shape";
            if q {
                for &hk in &HS4 {
                    s.push(e1(prop, "u32", hk, 0, full, &[], 64, 1, 1, "chk", 40.0));
                }
                for &hk in &[H_GOOD, H_LOW] {
                    s.push(e1(prop, "tk", hk, 0, full, &[], 33, 1, 1, "chk", 40.0));
                    s.push(e1(prop, "u32", hk, 0, lite, &[], 31, 2, 1, "chk", 40.0));
                    s.push(e2(prop, "u32", hk, "look1+mut+ch0+shape2", &[], 4, "chk", 40.0));
                }
                s.push(e1(prop, "u32", H_GOOD, 29, full, &[], 130, 1, 1, "chk", 40.0));
                s.push(e2(prop, "tk", H_GOOD, "look1+mut+ch0+shape2", &[], 3, "chk", 40.0));
                s.push(e2(prop, "zst", H_GOOD, "look+mut+ch1+bulk2+shape2", &[], 1, "chk", 40.0));
                s.push(e2(prop, "u32", H_CONST, "look1+mut+ch0+shape2", &[], 3, "chk", 40.0));
                // 1 KiB, 64-byte-aligned elements with self-checking padding
                s.push(e1(prop, "big", H_GOOD, 0, full, &[], 40, 1, 1, "chk", 40.0));
                s.push(e1(prop, "pod", H_GOOD, 0, full, &[], 33, 1, 1, "chk", 40.0));
                s.push(e2(prop, "big", H_LOW, "look1+mut+ch0+shape2", &[], 3, "chk", 40.0));
                s.push(e1(prop, "u32", H_GOOD, 0, "look1+mut+ch0+shape", &[], 600, 1, 0, "chk", 40.0));
                s.push(e1(prop, "u32", H_LOW, 0, "look1+mut+ch0+shape", &[], 300, 1, 0, "chk", 40.0));
                s.push(e1(prop, "u32", H_GOOD, 0, "bulkbig", &[], 40, 1, 0, "chk", 40.0));
                s.push(e1(prop, "tk", H_GOOD, 0, "mut1+shape/hintlie", &[], 31, 2, 0, "chk", 40.0));
                s.push(as_set(e1(prop, "u32", H_GOOD, 0, "bulkbig", &[], 31, 1, 0, "chk", 40.0)));
                // the whole resize of a 1024-bucket table (897..1010 elements), one deviation at every point
                s.push(spot(prop, "u32", H_GOOD, "look1+mut+ch0+shape+iterlite", &["cursor"], 890, 1012, "chk", 40.0));
                // PathBuf keys looked up / removed as &Path in four spellings of different byte length
                s.push(e1(prop, "u32", H_GOOD, 0, "borrow", &[], 130, 1, 0, "chk", 40.0));
                s.push(e1(prop, "u32", H_LOW, 0, "mut1+shape/borrow", &[], 31, 2, 1, "chk", 40.0));
                s.push(e1(prop, "u32", H_GOOD, 0, "rmold/rmold/look1+mut1+ch0+iterlite", &["cursor"], 72, 3, 0, "chk", 40.0));
                s.push(e1(prop, "u32", H_LOW, 0, "rmold/rmold/look1+mut1+ch0+iterlite", &["cursor"], 72, 3, 0, "chk", 40.0));
                s.push(sweep(prop, "u32", H_GOOD, 100_000, &["cheap"], &[("stride", "3"), ("audit_every", "10000"), ("mix", "1")], "chk", 40.0));
                s.push(sweep(prop, "u32", H_TAG, 30_000, &["cheap"], &[("stride", "8"), ("audit_every", "5000"), ("mix", "1")], "chk", 40.0));
                bounds = json!({"E1-deep": "d<=3 at N=72 where the first two deviations remove old-table elements the cursor has not reached (4 location classes x 4 removal APIs)", "E1-large": "d<=1 with class keys at every point of the growth path to N=600 (HGood) / 300 (HLow)", "E7": "growth path to 10^5 elements with a mixed call menu (entry / raw entry / get_mut / remove_entry on keys of either table, tombstones) against the reference, full audit every 10^4 steps", "E1": "d<=1 at N=64 (u32, 4 hashers, every concrete key) and N=130 (cap0=29); d<=2 at N=31 (class keys in layer 2)", "E2": "fixpoint over u=4 keys (HGood,HLow), u=3 (HConst, Tk), u=1 (ZST)"});
            } else {
                for &hk in &HS4 {
                    for &c in &[0usize, 1, 4, 29] {
                        s.push(e1(prop, "u32", hk, c, full, &[], 130, 1, 1, "chk", 600.0));
                    }
                    s.push(e1(prop, "tk", hk, 0, full, &[], 130, 1, 1, "chk", 600.0));
                    s.push(e1(prop, "u32", hk, 0, lite, &[], 64, 2, 1, "chk", 900.0));
                    s.push(e1(prop, "tk", hk, 0, lite, &[], 33, 2, 1, "chk", 900.0));
                }
                s.push(e1(prop, "u32", H_GOOD, 200, full, &[], 130, 1, 1, "chk", 600.0));
                s.push(e1(prop, "u32", H_GOOD, 0, "mut+ch0+shape", &[], 31, 3, 1, "chk", 900.0));
                for &hk in &[H_GOOD, H_LOW] {
                    s.push(e2(prop, "u32", hk, "look1+mut+ch0+shape2", &[], if hk == H_LOW { 5 } else { 6 }, "chk", 900.0));
                    s.push(e2(prop, "tk", hk, "look1+mut+ch0+shape2", &[], 5, "chk", 900.0));
                }
                for &hk in &[H_CONST, H_TAG] {
                    s.push(e2(prop, "u32", hk, "look1+mut+ch0+shape2", &[], 5, "chk", 900.0));
                    s.push(e2(prop, "tk", hk, "look1+mut+ch0+shape2", &[], 4, "chk", 900.0));
                }
                s.push(e2(prop, "zst", H_GOOD, "look+mut+ch1+bulk2+shape2", &[], 1, "chk", 600.0));
                s.push(e2(prop, "u32", H_GOOD, "look+mut+ch1+bulk2+shape2", &[], 3, "chk", 900.0));
                for &hk in &HS4 {
                    s.push(e1(prop, "pod", hk, 0, full, &[], 130, 1, 1, "chk", 600.0));
                }
                for &hk in &[H_GOOD, H_LOW] {
                    s.push(e1(prop, "big", hk, 0, full, &[], 130, 1, 1, "chk", 600.0));
                    s.push(e1(prop, "big", hk, 0, lite, &[], 40, 2, 1, "chk", 900.0));
                    s.push(e2(prop, "big", hk, "look1+mut+ch0+shape2", &[], 4, "chk", 900.0));
                }
                for &hk in &HS4 {
                    s.push(sweep(prop, "u32", hk, if hk == H_CONST { 3_000 } else if hk == H_LOW { 30_000 } else { 1_000_000 }, &["cheap"], &[("stride", "3"), ("audit_every", "50000"), ("mix", "1")], "chk", 600.0));
                }
                s.push(sweep(prop, "tk", H_GOOD, 200_000, &["cheap"], &[("stride", "8"), ("audit_every", "20000"), ("mix", "1")], "chk", 600.0));
                for &hk in &HS4 {
                    s.push(e1(prop, "u32", hk, 0, "look1+mut+ch0+shape", &[], if hk == H_CONST { 500 } else { 800 }, 1, 0, "chk", 900.0));
                }
                for &hk in &[H_GOOD, H_TAG] {
                    s.push(spot(prop, "u32", hk, "look+mut+ch1+bulk+shape+iter", &["cursor"], 890, 1012, "chk", 1200.0));
                    s.push(spot(prop, "u32", hk, "look1+mut+ch0+shape", &["cursor"], 3580, 4040, "chk", 1200.0));
                }
                s.push(spot(prop, "tk", H_GOOD, "look1+mut+ch0+shape+iterlite", &["cursor"], 890, 1012, "chk", 1200.0));
                for &hk in &HS4 {
                    s.push(e1(prop, "u32", hk, 0, "borrow", &[], 300, 1, 0, "chk", 900.0));
                    s.push(e1(prop, "u32", hk, 0, "mut1+shape/borrow", &[], 64, 2, 1, "chk", 900.0));
                }
                bounds = json!({"E7": "growth path to 10^6 elements (u32 with HGood / HTag; 3*10^4 with the 4-valued HLow, 3*10^3 with HConst, whose probe sequences are linear in the size; 2*10^5 Tk) with a mixed call menu against the reference", "E1": "d<=1 at N=130 (4 hashers x initial capacities {0,1,4,29,200} x {u32,Tk}); d<=2 at N=64; d<=3 at N=31", "E2": "fixpoint over u=6 (HGood) / u=5 (HLow,HConst,HTag) keys; full alphabet at u=3; ZST"});
            }
        }
        "C02" => {
            let fl = ["c02", "c03"];
            let a1 = "look+mut+ch1+shape+bulk";
            let a2 = "look1+mut+ch0+shape";
            let sweep = |n: usize, stride: u32, hk: u8, secs: f64| {
                let mut x = e1(prop, "u32", hk, 0, "", &["c02", "c03", "cheap"], n, 0, 0, "chk", secs);
                x.engine = "e7".into();
                x.extra.insert("stride".into(), stride.to_string());
                // entry / raw-entry / get_mut / remove_entry calls on keys of either table as well
                x.extra.insert("mix".into(), "1".into());
                x
            };
            if q {
                for &hk in &HS4 {
                    s.push(e1(prop, "u32", hk, 0, a1, &fl, 64, 1, 1, "chk", 40.0));
                }
                s.push(e1(prop, "u32", H_GOOD, 0, a1, &fl, 130, 1, 1, "chk", 40.0));
                s.push(e1(prop, "big", H_GOOD, 0, a1, &fl, 64, 1, 1, "chk", 40.0));
                // the single-element set calls (replace / get_or_insert* / take ... are in-place updates, lookups, removals)
                s.push(as_set(e1(prop, "u32", H_GOOD, 0, "skey", &["c02"], 64, 1, 1, "chk", 40.0)));
                s.push(as_set(e1(prop, "tk", H_LOW, 0, "skey+sshape/skey", &["c02"], 31, 2, 1, "chk", 40.0)));
                s.push(e1(prop, "u32", H_GOOD, 0, a2, &fl, 31, 2, 1, "chk", 40.0));
                s.push(e1(prop, "u32", H_LOW, 0, a2, &fl, 31, 2, 1, "chk", 40.0));
                s.push(e2(prop, "u32", H_GOOD, "look1+mut+ch0+shape2", &fl, 4, "chk", 40.0));
                s.push(e2(prop, "u32", H_LOW, "look1+mut+ch0+shape2", &fl, 4, "chk", 40.0));
                for st in [0, 2, 3, 8] {
                    s.push(sweep(200_000, st, H_GOOD, 40.0));
                }
                bounds = json!({"E1": "d<=1 at N=64 (4 hashers) and N=130; d<=2 at N=31", "E2": "fixpoint u=4", "E7": "growth path to 2*10^5 elements (14 doublings) with tombstone strides {none,2,3,8}, every call monitored"});
            } else {
                for &hk in &HS4 {
                    for &c in &[0usize, 29] {
                        s.push(e1(prop, "u32", hk, c, a1, &fl, 130, 1, 1, "chk", 600.0));
                    }
                    s.push(e1(prop, "u32", hk, 0, a2, &fl, 64, 2, 1, "chk", 900.0));
                }
                s.push(e1(prop, "u32", H_GOOD, 0, "mut+ch0+shape", &fl, 31, 3, 1, "chk", 900.0));
                s.push(e1(prop, "big", H_GOOD, 0, a1, &fl, 130, 1, 1, "chk", 900.0));
                for &hk in &HS4 {
                    s.push(as_set(e1(prop, "u32", hk, 0, "skey", &["c02"], 130, 1, 1, "chk", 900.0)));
                    s.push(as_set(e1(prop, "tk", hk, 0, "skey+sshape/skey", &["c02"], 40, 2, 1, "chk", 900.0)));
                }
                s.push(e1(prop, "big", H_LOW, 0, a2, &fl, 40, 2, 1, "chk", 900.0));
                for &hk in &[H_GOOD, H_LOW] {
                    s.push(e2(prop, "u32", hk, "look1+mut+ch0+shape2", &fl, if hk == H_LOW { 5 } else { 6 }, "chk", 900.0));
                }
                s.push(e2(prop, "u32", H_TAG, "look1+mut+ch0+shape2", &fl, 5, "chk", 900.0));
                for st in [0, 2, 3, 8] {
                    s.push(sweep(3_000_000, st, H_GOOD, 600.0));
                    s.push(sweep(300_000, st, H_TAG, 600.0));
                }
                bounds = json!({"E1": "d<=1 at N=130 (4 hashers x cap0 {0,29}); d<=2 at N=64; d<=3 at N=31", "E2": "fixpoint u=6 (HGood,HLow), u=5 (HTag)", "E7": "growth path to 3*10^6 elements (18 doublings) with tombstone strides {none,2,3,8}"});
            }
        }
        "C03" => {
            let fl = ["c03", "cursor"];
            let a = "look1+mut+ch0+shape";
            let sweep = |n: usize, stride: u32, secs: f64| {
                let mut x = e1(prop, "u32", H_GOOD, 0, "", &["c03", "cheap"], n, 0, 0, "chk", secs);
                x.engine = "e7".into();
                x.extra.insert("stride".into(), stride.to_string());
                x.extra.insert("mix".into(), "1".into());
                x
            };
            if q {
                for &hk in &HS4 {
                    s.push(e1(prop, "u32", hk, 0, a, &fl, 64, 1, 1, "chk", 40.0));
                    s.push(e1(prop, "u32", hk, 0, a, &fl, 31, 2, 1, "chk", 40.0));
                }
                s.push(e1(prop, "u32", H_GOOD, 0, a, &fl, 130, 1, 1, "chk", 40.0));
                s.push(e1(prop, "u32", H_GOOD, 0, a, &fl, 600, 1, 0, "chk", 40.0));
                s.push(e1(prop, "tk", H_GOOD, 0, a, &fl, 31, 1, 1, "chk", 40.0));
                // the per-call amount of moving must not depend on the element size (2 KiB slots)
                s.push(e1(prop, "big", H_GOOD, 0, a, &fl, 64, 1, 1, "chk", 40.0));
                s.push(as_set(e1(prop, "big", H_GOOD, 0, "skey+sshape", &fl, 40, 1, 1, "chk", 40.0)));
                s.push(e2(prop, "u32", H_GOOD, "look1+mut+ch0+shape2", &fl, 4, "chk", 40.0));
                s.push(e2(prop, "u32", H_CONST, "look1+mut+ch0+shape2", &fl, 3, "chk", 40.0));
                s.push(e2(prop, "zst", H_GOOD, "look+mut+ch1+bulk2+shape2", &fl, 1, "chk", 40.0));
                s.push(sweep(200_000, 0, 40.0));
                s.push(sweep(200_000, 3, 40.0));
                // at every resize start the old table is emptied again through the removal APIs (it must be freed
                // by the call that takes its last element), for 8-byte slots to 6*10^4 elements and 2 KiB slots to 500
                s.push(crate::plan::sweep(prop, "u32", H_GOOD, 60_000, &["c03", "cursor", "cheap"], &[("drain_old", "1"), ("audit_every", "0")], "chk", 40.0));
                s.push(crate::plan::sweep(prop, "big", H_GOOD, 500, &["c03", "cursor", "cheap"], &[("drain_old", "1"), ("audit_every", "0")], "chk", 40.0));
                bounds = json!({"E7-drain": "old table emptied by remove / remove_entry / entry removal at every resize start: u32 to 6*10^4 elements, 2 KiB slots to 500", "E1": "d<=1 at N=64/130; d<=2 at N=31 (4 hashers)", "E2": "fixpoint u=4 / u=3 (HConst) / ZST", "E7": "2*10^5 elements"});
            } else {
                for &hk in &HS4 {
                    s.push(e1(prop, "u32", hk, 0, a, &fl, 130, 1, 1, "chk", 600.0));
                    s.push(e1(prop, "u32", hk, 0, a, &fl, 64, 2, 1, "chk", 900.0));
                    s.push(e1(prop, "tk", hk, 0, a, &fl, 33, 2, 1, "chk", 900.0));
                }
                s.push(e1(prop, "big", H_GOOD, 0, a, &fl, 130, 1, 1, "chk", 900.0));
                s.push(e1(prop, "big", H_LOW, 0, a, &fl, 40, 2, 1, "chk", 900.0));
                s.push(as_set(e1(prop, "big", H_GOOD, 0, "skey+sshape", &fl, 130, 1, 1, "chk", 900.0)));
                s.push(e1(prop, "u32", H_GOOD, 0, "mut+ch0+shape", &fl, 31, 3, 1, "chk", 900.0));
                for &hk in &[H_GOOD, H_LOW] {
                    s.push(e2(prop, "u32", hk, "look1+mut+ch0+shape2", &fl, if hk == H_LOW { 5 } else { 6 }, "chk", 900.0));
                }
                s.push(e2(prop, "u32", H_CONST, "look1+mut+ch0+shape2", &fl, 5, "chk", 1800.0));
                s.push(e2(prop, "zst", H_GOOD, "look+mut+ch1+bulk2+shape2", &fl, 1, "chk", 100.0));
                for st in [0, 2, 3, 8] {
                    s.push(sweep(3_000_000, st, 600.0));
                }
                for &hk in &[H_GOOD, H_TAG] {
                    s.push(crate::plan::sweep(prop, "u32", hk, 2_000_000, &["c03", "cursor", "cheap"], &[("drain_old", "1"), ("audit_every", "0")], "chk", 900.0));
                    s.push(crate::plan::sweep(prop, "big", hk, 20_000, &["c03", "cursor", "cheap"], &[("drain_old", "1"), ("audit_every", "0")], "chk", 900.0));
                }
                s.push(crate::plan::sweep(prop, "tk", H_GOOD, 200_000, &["c03", "cursor", "cheap"], &[("drain_old", "1"), ("audit_every", "0")], "chk", 900.0));
                bounds = json!({"E7-drain": "old table emptied through the removal APIs at every resize start: u32 to 2*10^6 elements, Tk to 2*10^5, 2 KiB slots to 2*10^4", "E1": "d<=1 at N=130; d<=2 at N=64; d<=3 at N=31", "E2": "fixpoint u=6 / u=5 (HConst) / ZST", "E7": "3*10^6 elements, strides {none,2,3,8}"});
            }
        }
        "C04" => {
            let fl = ["c03", "c10"];
            let a = "mut1+ch0+shape+fill/mut1+ch0+cap+fill+clone";
            if q {
                for &hk in &HS4 {
                    s.push(e1(prop, "u32", hk, 0, a, &fl, if hk == H_CONST || hk == H_LOW { 31 } else { 40 }, 2, 1, "chk", 40.0));
                }
                s.push(e1(prop, "u32", H_GOOD, 0, "cap+fill+clone", &fl, 600, 1, 0, "chk", 40.0));
                s.push(e1(prop, "u32", H_GOOD, 0, "mut1+ch0+shape+cap+fill", &fl, 130, 1, 1, "chk", 40.0));
                s.push(e1(prop, "big", H_GOOD, 0, "mut1+ch0+shape+cap+fill", &fl, 64, 1, 1, "chk", 40.0));
                s.push(e2(prop, "u32", H_GOOD, "mut1+ch0+shape2+fill", &fl, 4, "chk", 40.0));
                s.push(e2(prop, "u32", H_LOW, "mut1+ch0+shape2+fill", &fl, 4, "chk", 40.0));
                s.push(e2(prop, "zst", H_GOOD, "mut+ch1+bulk2+shape2+fill", &fl, 1, "chk", 40.0));
                s.push(sweep(prop, "u32", H_GOOD, 200_000, &["c03", "c10", "cheap"], &[("stride", "0"), ("fill", "1"), ("audit_every", "50000")], "chk", 40.0));
                s.push(sweep(prop, "u32", H_LOW, 20_000, &["c03", "c10", "cheap"], &[("stride", "3"), ("fill", "1"), ("mix", "1"), ("audit_every", "5000")], "chk", 40.0));
                for f in ["6", "10", "16", "28"] {
                    s.push(sweep(prop, "u32", H_GOOD, 150_000, &["c03", "c10", "cheap"], &[("stride", "0"), ("shrink_frac", f), ("audit_every", "50000")], "chk", 40.0));
                }
                // zero slack: at every resize, shrink_to_fit to a main table whose capacity is exactly what is needed
                for d in ["1", "2", "3", "6"] {
                    // (exact fit, and 1 / 2 / 5 more than a table capacity: an estimate that much too small still picks it)
                    s.push(sweep(prop, "u32", H_GOOD, 150_000, &["c03", "c10", "cheap"], &[("stride", "0"), ("tight_shrink", d), ("audit_every", "50000")], "chk", 40.0));
                }
                s.push(sweep(prop, "big", H_GOOD, 1_000, &["c03", "c10", "cheap"], &[("stride", "0"), ("tight_shrink", "1"), ("audit_every", "0")], "chk", 40.0));
                bounds = json!({"E7": "head-room probe shortly after every resize start on the growth path to 2*10^5 elements (with tombstones to 2*10^4); and at every resize start up to 1.5*10^5 elements: remove len/f of the oldest keys (f in {6,10,16,28}), shrink_to_fit, head-room probe", "E1": "d<=2 at N=40 (HGood, HTag) / N=31 (HLow, HConst); d<=1 at N=130 (every key) and at every n<=600 with the boundary menu", "E2": "fixpoint u=4 with the head-room probe at every state"});
            } else {
                for &hk in &HS4 {
                    s.push(e1(prop, "u32", hk, 0, a, &fl, 64, 2, 1, "chk", 900.0));
                    s.push(e1(prop, "u32", hk, 0, "mut1+ch0+shape+cap+fill", &fl, 130, 1, 1, "chk", 600.0));
                }
                s.push(e1(prop, "u32", H_GOOD, 0, "cap+fill+clone", &fl, 4096, 1, 0, "chk", 900.0));
                s.push(e1(prop, "tk", H_GOOD, 0, a, &fl, 33, 2, 1, "chk", 900.0));
                s.push(e1(prop, "big", H_GOOD, 0, a, &fl, 33, 2, 1, "chk", 900.0));
                s.push(e1(prop, "big", H_GOOD, 0, "mut1+ch0+shape+cap+fill", &fl, 130, 1, 1, "chk", 900.0));
                s.push(e1(prop, "u32", H_GOOD, 0, "mut1+ch0+shape+fill/mut1+ch0+cap+fill+clone", &fl, 31, 3, 1, "chk", 900.0));
                for &hk in &[H_GOOD, H_LOW] {
                    s.push(e2(prop, "u32", hk, "mut1+ch0+shape2+fill", &fl, if hk == H_LOW { 5 } else { 6 }, "chk", 900.0));
                }
                s.push(e2(prop, "u32", H_CONST, "mut1+ch0+shape2+fill", &fl, 5, "chk", 900.0));
                s.push(e2(prop, "zst", H_GOOD, "mut+ch1+bulk2+shape2+fill", &fl, 1, "chk", 100.0));
                for st in ["0", "2", "3", "8"] {
                    s.push(sweep(prop, "u32", H_GOOD, 3_000_000, &["c03", "c10", "cheap"], &[("stride", st), ("fill", "1"), ("mix", "1"), ("audit_every", "200000")], "chk", 600.0));
                }
                for d in ["1", "2", "3", "4", "6", "9", "17", "33"] {
                    s.push(sweep(prop, "u32", H_GOOD, 2_000_000, &["c03", "c10", "cheap"], &[("stride", "0"), ("tight_shrink", d), ("audit_every", "500000")], "chk", 600.0));
                }
                s.push(sweep(prop, "tk", H_GOOD, 100_000, &["c03", "c10", "cheap"], &[("stride", "0"), ("tight_shrink", "1"), ("audit_every", "0")], "chk", 600.0));
                for f in ["5", "6", "8", "10", "12", "16", "20", "28", "40"] {
                    s.push(sweep(prop, "u32", H_GOOD, 1_000_000, &["c03", "c10", "cheap"], &[("stride", "0"), ("shrink_frac", f), ("audit_every", "200000")], "chk", 600.0));
                }
                bounds = json!({"E7": "head-room probe shortly after every resize start on the growth path to 3*10^6 elements, tombstone strides {none,2,3,8}", "E1": "d<=2 at N=64 (4 hashers); d<=3 at N=31; d<=1 at every n<=4096 with the boundary menu", "E2": "fixpoint u=6 / u=5 with the head-room probe at every state"});
            }
        }
        "C05" => {
            let fl = ["cursor"];
            let a = "look1+mut+ch1+bulk+shape/mut1+ch0+pred+iterlite";
            // "for any element type": an element whose destructor panics (caught) when the collection drops it,
            // at every such drop of every call; what is left must be consistent and the cursor must agree
            let drops = |hk: u8, n: usize, fam: usize, parts: usize, prof: &str, secs: f64| -> Vec<ShardSpec> {
                (0..parts)
                    .map(|p| {
                        let mut x = e1(prop, "tk", hk, 0, "mut+ch1+bulk+shape+iterlite+predlite", &["cursor"], n, 0, 0, prof, secs);
                        x.engine = "e4".into();
                        x.extra.insert("fam".into(), fam.to_string());
                        x.extra.insert("part".into(), p.to_string());
                        x.extra.insert("parts".into(), parts.to_string());
                        x.extra.insert("kinds".into(), "drop".into());
                        x
                    })
                    .collect()
            };
            if q {
                for &prof in &["asan", "chk"] {
                    s.push(e1(prop, "tk", H_GOOD, 0, a, &fl, if prof == "asan" { 31 } else { 18 }, if prof == "asan" { 1 } else { 2 }, 1, prof, 45.0));
                    s.push(e1(prop, "tk", H_LOW, 0, "look1+mut+ch1+bulk+shape", &fl, if prof == "asan" { 40 } else { 64 }, 1, 1, prof, 45.0));
                    s.push(e2(prop, "tk", H_GOOD, "look1+mut+ch0+shape2+iterlite", &fl, 3, prof, 45.0));
                    s.push(e2(prop, "tk", H_CONST, "look1+mut+ch0+shape2", &fl, if prof == "asan" { 2 } else { 3 }, prof, 45.0));
                    s.push(e2(prop, "zst", H_GOOD, "look+mut+ch1+bulk2+shape2+iterlite", &fl, 1, prof, 45.0));
                    s.push(e1(prop, "u32", H_TAG, 0, "look1+mut+ch1+bulk+shape", &fl, if prof == "asan" { 48 } else { 64 }, 1, 1, prof, 45.0));
                    s.push(as_set(e1(prop, "tk", H_GOOD, 0, "skey+sshape", &fl, if prof == "asan" { 33 } else { 64 }, 1, 1, prof, 45.0)));
                    s.push(e1(prop, "tk", H_GOOD, 0, "wrong/look1+mut+ch0+shape+iterlite", &fl, if prof == "asan" { 16 } else { 31 }, 2, 0, prof, 45.0));
                    if prof == "chk" {
                        // the tail of the resize of a 1024-bucket table
                        s.push(spot(prop, "tk", H_GOOD, "look1+mut+ch0+shape+iterlite", &fl, 1000, 1012, prof, 45.0));
                        s.push(e1(prop, "tk", H_GOOD, 0, "rmold/look1+mut1+ch0+iterlite+clone", &fl, 72, 2, 0, prof, 45.0));
                        s.push(e1(prop, "tk", H_GOOD, 0, "look1+mut+ch0+shape+iterlite", &fl, 300, 1, 0, prof, 45.0));
                        s.push(e1(prop, "tk", H_LOW, 0, "rmold/rmold/look1+mut1+ch0", &fl, 66, 3, 0, prof, 45.0)); // (the resize that starts at 57 elements is over at 64)
                    } else {
                        s.push(e1(prop, "tk", H_GOOD, 0, "rmold", &fl, 72, 1, 0, prof, 45.0));
                    }
                    s.push(as_set(e2(prop, "tk", H_LOW, "skey+sshape2", &fl, 3, prof, 45.0)));
                    s.push(as_set(e2(prop, "zst", H_GOOD, "skey+sshape2", &fl, 1, prof, 45.0)));
                    s.push(e2(prop, "zd", H_GOOD, "look+mut+ch1+bulk2+shape2+iterlite", &fl, 1, prof, 45.0));
                    s.push(e1(prop, "big", H_GOOD, 0, "look1+mut+ch1+bulk+shape+iterlite", &fl, if prof == "asan" { 31 } else { 40 }, 1, 1, prof, 45.0));
                    s.push(as_set(e1(prop, "big", H_LOW, 0, "skey+sshape", &fl, 31, 1, 1, prof, 45.0)));
                    s.push(e1(prop, "tk", H_GOOD, 0, "nokey", &fl, 40, 1, 0, prof, 45.0));
                    s.push(e1(prop, "tk", H_GOOD, 0, "hintlie", &fl, 31, 1, 0, prof, 45.0));
                    // old tables of every size emptied again through the removal APIs (cursor vs contents)
                    s.push(sweep(prop, "u32", H_GOOD, if prof == "asan" { 20_000 } else { 60_000 }, &["cursor", "cheap"], &[("drain_old", "1"), ("audit_every", "0")], prof, 45.0));
                    s.push(sweep(prop, "big", H_GOOD, if prof == "asan" { 300 } else { 500 }, &["cursor", "cheap"], &[("drain_old", "1"), ("audit_every", "0")], prof, 45.0));
                }
                s.extend(drops(H_GOOD, 40, 40, 2, "chk", 45.0));
                s.extend(drops(H_GOOD, 20, 8, 1, "asan", 45.0));
                bounds = json!({"panicking destructors": "every drop the collection performs in every call of a C01-style alphabet, on <=40 states to N=40 (chk) / 8 states to N=20 (asan), with the post-fault consistency checks, the cursor check and a continuation", "large elements": "1 KiB, 64-byte-aligned elements (2 KiB map slots) with self-checking padding: d<=1 at N=31..40, map and set", "E1": "Tk: d<=1 at N=64 / d<=2 at N=18 (chk), d<=1 at N=31..48 (asan)", "E2": "fixpoint u=3 (Tk; u=2 for HConst under asan), ZST", "profiles": "asan (optimised, assertions off) and chk (hashbrown debug assertions on)"});
            } else {
                for &prof in &["asan", "chk"] {
                    for &hk in &HS4 {
                        let slow = prof == "asan" && (hk == H_LOW || hk == H_CONST);
                        s.push(e1(prop, "tk", hk, 0, "look1+mut+ch1+bulk+shape", &fl, if slow { 64 } else { 130 }, 1, 1, prof, 900.0));
                        s.push(e1(prop, "tk", hk, 0, a, &fl, if slow { 20 } else { 33 }, 2, 1, prof, 1200.0));
                    }
                    s.push(e2(prop, "tk", H_GOOD, "look1+mut+ch0+shape2+iterlite", &fl, if prof == "asan" { 4 } else { 5 }, prof, 1200.0));
                    s.push(e2(prop, "tk", H_CONST, "look1+mut+ch0+shape2", &fl, 4, prof, 1200.0));
                    s.push(e2(prop, "zst", H_GOOD, "look+mut+ch1+bulk2+shape2+iterlite", &fl, 1, prof, 200.0));
                    s.push(e1(prop, "u32", H_TAG, 0, "look1+mut+ch1+bulk+shape", &fl, 130, 1, 1, prof, 900.0));
                    s.push(as_set(e1(prop, "tk", H_GOOD, 0, "skey+sshape+siter", &fl, 64, 1, 1, prof, 900.0)));
                    s.push(e1(prop, "tk", H_GOOD, 0, "wrong/look1+mut+ch0+shape+iterlite", &fl, 40, 2, 0, prof, 1200.0));
                    s.push(e1(prop, "tk", H_LOW, 0, "wrong/look1+mut+ch0+shape+iterlite", &fl, 31, 2, 1, prof, 1200.0));
                    s.push(as_set(e1(prop, "tk", H_LOW, 0, "skey+sshape", &fl, 31, 2, 1, prof, 1200.0)));
                    s.push(as_set(e2(prop, "tk", H_LOW, "skey+sshape2", &fl, 4, prof, 1200.0)));
                    s.push(as_set(e2(prop, "zst", H_GOOD, "skey+sshape2", &fl, 1, prof, 100.0)));
                    s.push(e1(prop, "big", H_GOOD, 0, "look1+mut+ch1+bulk+shape+iterlite", &fl, if prof == "asan" { 64 } else { 130 }, 1, 1, prof, 900.0));
                    s.push(e1(prop, "big", H_LOW, 0, a, &fl, if prof == "asan" { 20 } else { 33 }, 2, 1, prof, 1200.0));
                    s.push(as_set(e1(prop, "big", H_LOW, 0, "skey+sshape+siter", &fl, 64, 1, 1, prof, 900.0)));
                    s.push(e2(prop, "big", H_GOOD, "look1+mut+ch0+shape2+iterlite", &fl, 4, prof, 1200.0));
                    s.push(e1(prop, "tk", H_GOOD, 0, "mut1+shape/nokey", &fl, 64, 2, 0, prof, 900.0));
                    if prof == "chk" {
                        s.push(spot(prop, "tk", H_GOOD, "look1+mut+ch1+bulk+shape+iterlite", &fl, 890, 1012, prof, 1200.0));
                        s.push(spot(prop, "big", H_GOOD, "look1+mut+ch0+shape+iterlite", &fl, 440, 510, prof, 1200.0));
                    } else {
                        s.push(spot(prop, "tk", H_GOOD, "look1+mut+ch0+shape+iterlite", &fl, 980, 1012, prof, 1200.0));
                    }
                    s.push(sweep(prop, "u32", H_GOOD, 1_000_000, &["cursor", "cheap"], &[("drain_old", "1"), ("audit_every", "0")], prof, 900.0));
                    s.push(sweep(prop, "tk", H_LOW, 3_000, &["cursor", "cheap"], &[("drain_old", "1"), ("audit_every", "0")], prof, 900.0));
                    s.push(sweep(prop, "big", H_GOOD, 10_000, &["cursor", "cheap"], &[("drain_old", "1"), ("audit_every", "0")], prof, 900.0));
                }
                for &hk in &[H_GOOD, H_LOW] {
                    s.extend(drops(hk, 64, 200, 6, "chk", 900.0));
                }
                s.extend(drops(H_GOOD, 40, 48, 6, "asan", 900.0));
                bounds = json!({"panicking destructors": "every drop the collection performs in every call, <=200 states to N=64 (chk, 2 hashers) / 48 states to N=40 (asan)", "large elements": "1 KiB, 64-byte-aligned elements: d<=1 at N=130, d<=2 at N=33, E2 u=4", "E1": "Tk: d<=1 at N=130, d<=2 at N=33 (4 hashers; N=64 / N=20 for the clustering hashers under asan)", "E2": "fixpoint u=5/4 (Tk), ZST"});
            }
        }
        "C06" => {
            let a = "mut+ch1+bulk+shape+iterlite/mut1+ch0+iter+clone";
            if q {
                for &hk in &[H_GOOD, H_LOW] {
                    s.push(e1(prop, "tk", hk, 0, a, &[], 20, 2, 1, "chk", 45.0));
                    s.push(e1(prop, "tk", hk, 0, "mut+ch1+bulk+shape+iter", &[], 64, 1, 1, "chk", 45.0));
                }
                s.push(e1(prop, "tk", H_CONST, 0, "mut+ch1+bulk+shape+iter", &[], 40, 1, 1, "chk", 45.0));
                s.push(e2(prop, "tk", H_GOOD, "mut+ch0+shape2+iterlite", &[], 3, "chk", 45.0));
                s.push(e2(prop, "tk", H_LOW, "mut+ch0+shape2+iterlite", &[], 3, "chk", 45.0));
                s.push(as_set(e1(prop, "tk", H_GOOD, 0, "skey+sshape+siter", &[], 40, 1, 1, "chk", 45.0)));
                s.push(as_set(e2(prop, "tk", H_LOW, "skey+sshape2", &[], 3, "chk", 45.0)));
                s.push(e2(prop, "zd", H_GOOD, "look+mut+ch1+bulk2+shape2+iterlite", &[], 1, "chk", 45.0));
                s.push(as_set(e2(prop, "zd", H_GOOD, "skey+sshape2+siter", &[], 1, "chk", 45.0)));
                bounds = json!({"zero-sized": "a zero-sized element type with a Drop impl (created / dropped counts): E2 fixpoint, map and set", "sets": "Tk sets: d<=1 at N=40 with every iterator prefix; E2 fixpoint u=3", "E1": "Tk: d<=2 at N=20, d<=1 at N=64, iterators dropped/forgotten at every prefix (<=40 elements) ", "E2": "fixpoint u=3"});
            } else {
                for &hk in &HS4 {
                    s.push(e1(prop, "tk", hk, 0, a, &[], 40, 2, 1, "chk", 1200.0));
                    s.push(e1(prop, "tk", hk, 0, "mut+ch1+bulk+shape+iter", &[], 130, 1, 1, "chk", 900.0));
                }
                s.push(e2(prop, "tk", H_GOOD, "mut+ch0+shape2+iterlite", &[], 5, "chk", 1200.0));
                s.push(e2(prop, "tk", H_LOW, "mut+ch0+shape2+iterlite", &[], 4, "chk", 1200.0));
                s.push(e2(prop, "tk", H_CONST, "mut+ch0+shape2+iterlite", &[], 4, "chk", 1200.0));
                s.push(as_set(e1(prop, "tk", H_GOOD, 0, "skey+sshape+siter", &[], 130, 1, 1, "chk", 900.0)));
                s.push(as_set(e1(prop, "tk", H_LOW, 0, "skey+sshape/skey+siter", &[], 33, 2, 1, "chk", 1200.0)));
                s.push(as_set(e2(prop, "tk", H_LOW, "skey+sshape2", &[], 5, "chk", 1200.0)));
                s.push(e2(prop, "zd", H_GOOD, "look+mut+ch1+bulk2+shape2+iter", &[], 1, "chk", 300.0));
                s.push(as_set(e2(prop, "zd", H_GOOD, "skey+sshape2+siter", &[], 1, "chk", 300.0)));
                bounds = json!({"sets": "Tk sets: d<=1 at N=130, d<=2 at N=33; E2 fixpoint u=5", "E1": "Tk: d<=2 at N=40, d<=1 at N=130 (4 hashers)", "E2": "fixpoint u=5/4"});
            }
        }
        "C08" => {
            let a = "mut1+ch0+shape+iter/iter";
            if q {
                for &hk in &HS4 {
                    s.push(e1(prop, "u32", hk, 0, a, &[], 33, 2, 1, "chk", 45.0));
                }
                s.push(e1(prop, "u32", H_GOOD, 0, "iter", &[], 130, 1, 0, "chk", 45.0));
                s.push(e1(prop, "u32", H_GOOD, 0, "rmold/iter", &["cursor"], 72, 2, 0, "chk", 45.0));
                s.push(e1(prop, "u32", H_LOW, 0, "rmold/iter", &["cursor"], 72, 2, 0, "chk", 45.0));
                s.push(e1(prop, "u32", H_GOOD, 0, "iter", &["cursor"], 400, 1, 0, "chk", 45.0));
                s.push(spot(prop, "u32", H_GOOD, "iter", &["cursor"], 1000, 1012, "chk", 45.0));
                s.push(e1(prop, "u32", H_GOOD, 0, "rmold/rmold/iter", &["cursor"], 72, 3, 0, "chk", 45.0));
                s.push(e1(prop, "tk", H_GOOD, 0, a, &[], 31, 2, 1, "chk", 45.0));
                s.push(e2(prop, "u32", H_GOOD, "mut1+ch0+shape2+iter", &[], 3, "chk", 45.0));
                s.push(e2(prop, "zst", H_GOOD, "mut+bulk2+shape2+iter", &[], 1, "chk", 45.0));
                s.push(as_set(e1(prop, "u32", H_GOOD, 0, "skey+sshape+siter/siter", &[], 18, 2, 1, "chk", 45.0)));
                s.push(as_set(e1(prop, "tk", H_LOW, 0, "siter", &[], 64, 1, 0, "chk", 45.0)));
                s.push(as_set(e2(prop, "u32", H_GOOD, "skey+sshape2+siter", &[], 3, "chk", 45.0)));
                bounds = json!({"sets": "HashSet iter/into_iter/drain/drain_filter at every state with <=1 deviation up to N=18, growth path to 64, E2 fixpoint u=3", "E1": "iterator checks at every state with <=1 deviation up to N=33 (4 hashers) and on the growth path to N=130; every consumption prefix for <=40 elements", "E2": "fixpoint u=3, ZST"});
            } else {
                for &hk in &HS4 {
                    s.push(e1(prop, "u32", hk, 0, a, &[], 64, 2, 1, "chk", 1200.0));
                    s.push(e1(prop, "tk", hk, 0, a, &[], 33, 2, 1, "chk", 1200.0));
                }
                s.push(e1(prop, "u32", H_GOOD, 0, "iter", &[], 300, 1, 0, "chk", 600.0));
                s.push(e1(prop, "u32", H_GOOD, 0, "mut1+ch0+shape/mut1+ch0+shape/iter", &[], 31, 3, 1, "chk", 1200.0));
                s.push(e2(prop, "u32", H_GOOD, "mut1+ch0+shape2+iter", &[], 5, "chk", 1200.0));
                s.push(e2(prop, "u32", H_CONST, "mut1+ch0+shape2+iter", &[], 4, "chk", 1200.0));
                s.push(e2(prop, "zst", H_GOOD, "mut+bulk2+shape2+iter", &[], 1, "chk", 100.0));
                for &hk in &HS4 {
                    s.push(as_set(e1(prop, "u32", hk, 0, "skey+sshape+siter/siter", &[], if hk == H_GOOD || hk == H_TAG { 64 } else { 40 }, 2, 1, "chk", 1200.0)));
                }
                s.push(as_set(e1(prop, "tk", H_LOW, 0, "siter", &[], 130, 1, 0, "chk", 600.0)));
                s.push(as_set(e2(prop, "u32", H_GOOD, "skey+sshape2+siter", &[], 5, "chk", 1200.0)));
                bounds = json!({"sets": "HashSet iterators at every state with <=1 deviation up to N=64 (4 hashers), growth path to 130, E2 fixpoint u=5", "E1": "iterator checks at every state with <=1 deviation up to N=64 and <=2 deviations up to N=31", "E2": "fixpoint u=5/4, ZST"});
            }
        }
        "C09" => {
            let a = "mut1+ch0+shape+pred/pred";
            if q {
                for &hk in &HS4 {
                    s.push(e1(prop, "u32", hk, 0, "mut1+ch0+shape+pred/predlite", &["cursor"], 18, 2, 1, "chk", 45.0));
                    s.push(e1(prop, "u32", hk, 0, "pred", &["cursor"], 64, 1, 0, "chk", 45.0));
                }
                s.push(e1(prop, "u32", H_GOOD, 0, "pred", &["cursor"], 130, 1, 0, "chk", 45.0));
                s.push(e1(prop, "u32", H_GOOD, 0, "rmold/predlite", &["cursor"], 72, 2, 0, "chk", 45.0));
                s.push(e1(prop, "u32", H_LOW, 0, "rmold/predlite", &["cursor"], 72, 2, 0, "chk", 45.0));
                s.push(e1(prop, "u32", H_GOOD, 0, "predlite", &["cursor"], 400, 1, 0, "chk", 45.0));
                s.push(spot(prop, "u32", H_GOOD, "pred", &["cursor"], 1000, 1012, "chk", 45.0));
                s.push(e1(prop, "u32", H_GOOD, 0, "rmold/rmold/predlite", &["cursor"], 72, 3, 0, "chk", 45.0));
                s.push(e1(prop, "tk", H_GOOD, 0, "pred", &["cursor"], 64, 1, 0, "chk", 45.0));
                s.push(e2(prop, "u32", H_GOOD, "mut1+ch0+shape2+pred", &["cursor"], 3, "chk", 45.0));
                // zero-sized elements (map, set, and with a Drop impl), large elements
                s.push(e2(prop, "zst", H_GOOD, "mut+bulk2+shape2+pred", &["cursor"], 1, "chk", 45.0));
                s.push(e2(prop, "zd", H_GOOD, "mut+bulk2+shape2+pred", &["cursor"], 1, "chk", 45.0));
                s.push(as_set(e2(prop, "zst", H_GOOD, "skey+sshape2+siter", &["cursor"], 1, "chk", 45.0)));
                s.push(e1(prop, "big", H_GOOD, 0, "pred+preddrop", &["cursor"], 40, 1, 0, "chk", 45.0));
                s.push(e1(prop, "tk", H_LOW, 0, "preddrop", &["cursor"], 40, 1, 0, "chk", 45.0));
                s.push(e1(prop, "u32", H_GOOD, 0, "preddrop", &["cursor"], 72, 1, 0, "chk", 45.0));
                s.push(as_set(e1(prop, "big", H_GOOD, 0, "skey+sshape+siter", &["cursor"], 40, 1, 0, "chk", 45.0)));
                bounds = json!({"E1": "all predicates (incl. 2^k subsets of class representatives) at every point of the growth path to N=64 (4 hashers) / 130, and structural predicates after <=1 deviation up to N=18", "E2": "fixpoint u=3"});
            } else {
                for &hk in &HS4 {
                    s.push(e1(prop, "u32", hk, 0, a, &["cursor"], if hk == H_LOW || hk == H_CONST { 28 } else { 36 }, 2, 1, "chk", 1200.0));
                    s.push(e1(prop, "tk", hk, 0, a, &["cursor"], 31, 2, 1, "chk", 1200.0));
                }
                s.push(e1(prop, "u32", H_GOOD, 0, "pred", &["cursor"], 300, 1, 0, "chk", 600.0));
                s.push(e2(prop, "u32", H_GOOD, "mut1+ch0+shape2+pred", &["cursor"], 4, "chk", 1200.0));
                s.push(e2(prop, "tk", H_LOW, "mut1+ch0+shape2+pred", &["cursor"], 3, "chk", 1200.0));
                s.push(e2(prop, "zst", H_GOOD, "mut+bulk2+shape2+pred", &["cursor"], 1, "chk", 300.0));
                s.push(e2(prop, "zd", H_GOOD, "mut+bulk2+shape2+pred", &["cursor"], 1, "chk", 300.0));
                s.push(as_set(e2(prop, "zst", H_GOOD, "skey+sshape2+siter", &["cursor"], 1, "chk", 300.0)));
                s.push(e1(prop, "big", H_GOOD, 0, a, &["cursor"], 33, 2, 1, "chk", 1200.0));
                for &hk in &HS4 {
                    s.push(e1(prop, "big", hk, 0, "pred+preddrop", &["cursor"], 130, 1, 0, "chk", 1200.0));
                    s.push(e1(prop, "tk", hk, 0, "mut1+shape/preddrop", &["cursor"], 40, 2, 0, "chk", 1200.0));
                }
                bounds = json!({"E1": "all predicates at every state with <=1 deviation up to N=36", "E2": "fixpoint u=4"});
            }
        }
        "C10" => {
            let fl = ["c10"];
            if q {
                for &prof in &["chk", "rel"] {
                    s.push(e1(prop, "u32", H_GOOD, 0, "mut1+ch0+shape/capall+caphuge+fill", &fl, 24, 2, 1, prof, 45.0));
                    s.push(e1(prop, "u32", H_GOOD, 0, "mut1+ch0+shape/cap+caphuge+fill", &fl, 33, 2, 1, prof, 45.0));
                    s.push(e1(prop, "u32", H_GOOD, 0, "capall+caphuge", &fl, 130, 1, 0, prof, 45.0));
                    s.push(e1(prop, "u32", H_GOOD, 0, "withcap", &fl, 0, 1, 0, prof, 45.0));
                    s.push(e1(prop, "zst", H_GOOD, 0, "withcap", &fl, 0, 1, 0, prof, 45.0));
                    s.push(e2(prop, "zst", H_GOOD, "mut+shape2+caphuge", &fl, 1, prof, 45.0));
                    s.push(e1(prop, "tk", H_LOW, 0, "mut1+ch0+shape/cap+caphuge+fill", &fl, 20, 2, 1, prof, 45.0));
                    // clustering hashers (tombstones): a bulk removal, then a capacity call, then every capacity argument
                    for &hk in &[H_LOW, H_CONST] {
                        s.push(e1(prop, "u32", hk, 0, "mut1+ch0+shape+fill/mut1+ch0+cap+fill+clone", &fl, 31, 2, 1, prof, 45.0));
                    }
                    // try_reserve while the allocator refuses anything larger than the current table (Err is fine, Ok must hold)
                    s.push(e1(prop, "u32", H_GOOD, 0, "mempress", &fl, 130, 1, 0, prof, 45.0));
                    s.push(e1(prop, "u32", H_LOW, 0, "mut1+shape/mempress", &fl, 31, 2, 0, prof, 45.0));
                    // a nearly full table: bulk removal (tombstones), a reserve that starts a resize, then every capacity argument
                    for &hk in &[H_GOOD, H_LOW] {
                        let mut x = spot(prop, "u32", hk, "rt3/rsv3/shr64+fill", &fl, 25, 30, prof, 45.0);
                        x.d = 3;
                        s.push(x);
                    }
                    for c0 in [0usize, 3, 5] {
                        // (the initial capacity shifts which boundary argument meets which resize)
                        let mut x = sweep(prop, "u32", H_GOOD, 200_000, &["c10", "cheap"], &[("stride", "0"), ("reserve_at_resize", "1"), ("audit_every", "100000")], prof, 45.0);
                        x.cap0 = c0;
                        s.push(x);
                    }
                }
                bounds = json!({"E1": "every reserve/try_reserve n in [0,2cap+4], every shrink_to m in [0,cap+2], usize/isize windows, at every state with <=1 deviation up to N=24 (boundary menu up to N=33) and on the growth path to 130; with_capacity(n) for n<=1100 and 2^k+-1 to 2^20", "profiles": "chk and rel"});
            } else {
                for &prof in &["chk", "rel"] {
                    for &hk in &[H_GOOD, H_LOW, H_CONST] {
                        s.push(e1(prop, "u32", hk, 0, "mut1+ch0+shape/capall+caphuge+fill", &fl, if hk == H_GOOD { 64 } else { 40 }, 2, 1, prof, 1800.0));
                    }
                    s.push(e1(prop, "u32", H_GOOD, 0, "capall+caphuge", &fl, 600, 1, 0, prof, 900.0));
                    s.push(e1(prop, "u32", H_GOOD, 0, "cap+caphuge", &fl, 1000, 1, 0, prof, 1800.0));
                    s.push(e1(prop, "u32", H_GOOD, 0, "withcap", &fl, 0, 1, 0, prof, 100.0));
                    s.push(e1(prop, "zst", H_GOOD, 0, "withcap", &fl, 0, 1, 0, prof, 100.0));
                    s.push(e1(prop, "tk", H_GOOD, 0, "withcap", &fl, 0, 1, 0, prof, 100.0));
                    s.push(e2(prop, "zst", H_GOOD, "mut+shape2+caphuge", &fl, 1, prof, 100.0));
                    s.push(e1(prop, "tk", H_LOW, 0, "mut1+ch0+shape/capall+caphuge+fill", &fl, 33, 2, 1, prof, 1200.0));
                    for &hk in &HS4 {
                        s.push(e1(prop, "u32", hk, 0, "mempress", &fl, 600, 1, 0, prof, 900.0));
                        s.push(e1(prop, "u32", hk, 0, "mut1+ch0+shape/mempress", &fl, 40, 2, 0, prof, 900.0));
                        let mut x = spot(prop, "u32", hk, "rt3+mut1/rsv3+shape/shr64+cap+fill", &fl, 22, 31, prof, 1800.0);
                        x.d = 3;
                        s.push(x);
                        let mut x = spot(prop, "u32", hk, "rt3/rsv3/shr64+cap+fill", &fl, 50, 60, prof, 1800.0);
                        x.d = 3;
                        s.push(x);
                    }
                    s.push(e2(prop, "u32", H_GOOD, "mut1+ch0+shape2+caphuge", &fl, 4, prof, 1200.0));
                    for c0 in [0usize, 1, 2, 3, 4, 5, 6, 7] {
                        let mut x = sweep(prop, "u32", H_GOOD, 2_000_000, &["c10", "cheap"], &[("stride", if c0 % 2 == 0 { "0" } else { "3" }), ("reserve_at_resize", "1"), ("audit_every", "500000")], prof, 600.0);
                        x.cap0 = c0;
                        s.push(x);
                    }
                }
                bounds = json!({"E1": "all capacity arguments at every state with <=1 deviation up to N=64 (HGood) / N=40 (HLow, HConst), on the growth path to 600 (all n) and 1000 (boundary menu)", "profiles": "chk and rel"});
            }
        }
        "C12" => {
            let fl = ["cursor", "c02", "c03"];
            if q {
                for &hk in &HS4 {
                    s.push(e1(prop, "u32", hk, 0, "ch3", &fl, 58, 1, 0, "chk", 45.0));
                }
                s.push(e1(prop, "u32", H_GOOD, 0, "mut1+shape/ch2", &fl, 10, 2, 1, "chk", 45.0));
                s.push(e1(prop, "tk", H_GOOD, 0, "ch3", &fl, 31, 1, 0, "chk", 45.0));
                s.push(e1(prop, "pod", H_GOOD, 0, "ch2", &fl, 40, 1, 0, "chk", 45.0));
                s.push(e1(prop, "u32", H_GOOD, 0, "ch2", &fl, 48, 1, 1, "chk", 45.0));
                s.push(e1(prop, "u32", H_GOOD, 0, "ch1", &fl, 130, 1, 0, "chk", 45.0));
                s.push(e1(prop, "u32", H_GOOD, 0, "ch0", &fl, 500, 1, 0, "chk", 45.0));
                s.push(e1(prop, "tk", H_GOOD, 0, "nokey", &["cursor"], 64, 1, 0, "chk", 45.0)); // (no work monitors: a caught panic allocates)
                s.push(e2(prop, "u32", H_GOOD, "ch2+shape2", &fl, 2, "chk", 45.0));
                s.push(e2(prop, "zst", H_GOOD, "ch3+shape2", &fl, 1, "chk", 45.0));
                bounds = json!({"E1": "every entry / raw-entry method chain of length <=3 on every key class at every point of the growth path to N=58 (4 hashers); length <=2 on every concrete key to N=48 and after one shaping deviation to N=10; core chains on every class to N=130", "E2": "fixpoint u=2 with all chains of length <=2; ZST length <=3"});
            } else {
                for &hk in &HS4 {
                    s.push(e1(prop, "u32", hk, 0, "ch3", &fl, 130, 1, 0, "chk", 900.0));
                    s.push(e1(prop, "u32", hk, 0, "mut1+shape/ch3", &fl, if hk == H_LOW || hk == H_CONST { 16 } else { 24 }, 2, 1, "chk", 1500.0));
                    s.push(e1(prop, "tk", hk, 0, "ch3", &fl, 64, 1, 0, "chk", 900.0));
                    s.push(e1(prop, "pod", hk, 0, "ch3", &fl, 64, 1, 0, "chk", 900.0));
                }
                s.push(e1(prop, "u32", H_GOOD, 0, "ch3", &fl, 40, 1, 1, "chk", 1500.0));
                s.push(e1(prop, "u32", H_GOOD, 0, "ch2/ch2", &fl, 24, 2, 0, "chk", 1500.0));
                s.push(e2(prop, "u32", H_GOOD, "ch2+shape2", &fl, 3, "chk", 1500.0));
                s.push(e2(prop, "u32", H_LOW, "ch3+shape2", &fl, 2, "chk", 1500.0));
                s.push(e2(prop, "zst", H_GOOD, "ch3+shape2", &fl, 1, "chk", 300.0));
                bounds = json!({"E1": "chains of length <=3 on every key class at every point of the growth path to N=130 and after one shaping deviation to N=24; on every concrete key to N=40", "E2": "fixpoint u=3 (length <=2) / u=2 (length <=3); ZST"});
            }
        }
        "C07" => {
            let a = "look1+mut+ch1+bulk+shape+iterlite";
            let mk = |hk: u8, n: usize, fam: usize, parts: usize, prof: &str, per_op: bool, secs: f64| -> Vec<ShardSpec> {
                (0..parts)
                    .map(|p| {
                        let mut x = e1(prop, "tk", hk, 0, a, &["cursor"], n, 0, 0, prof, secs);
                        x.engine = "e4".into();
                        x.extra.insert("fam".into(), fam.to_string());
                        x.extra.insert("part".into(), p.to_string());
                        x.extra.insert("parts".into(), parts.to_string());
                        x.extra.insert("per_op_cont".into(), if per_op { "1" } else { "0" }.into());
                        x
                    })
                    .collect()
            };
            // recurring faults: after the first Hash panic the next 64 key-adding calls panic again in the
            // first element they relocate (a poisoned element at the head of the old table)
            let mk_refault = |hk: u8, n: usize, fam: usize, parts: usize, secs: f64| -> Vec<ShardSpec> {
                let mut v = mk(hk, n, fam, parts, "chk", false, secs);
                for x in v.iter_mut() {
                    x.alpha = "mut1+ch0".into();
                    x.extra.insert("refault".into(), "1".into());
                    // and a continuation that starts with shrink_to_fit whenever the fault left an old table behind
                    x.extra.insert("shrink_first".into(), "1".into());
                }
                v
            };
            if q {
                s.extend(mk_refault(H_GOOD, 64, 80, 4, 45.0));
                s.extend(mk(H_GOOD, 64, 160, 6, "chk", false, 45.0));
                s.extend(mk(H_LOW, 33, 48, 3, "chk", false, 45.0));
                s.extend(mk(H_CONST, 18, 20, 2, "chk", false, 45.0));
                s.extend(mk(H_GOOD, 33, 18, 6, "asan", false, 45.0));
                s.extend(mk(H_TAG, 10, 6, 3, "asan", false, 45.0));
                s.extend(mk(H_GOOD, 12, 12, 1, "chk", true, 45.0));
                bounds = json!({"recurring": "mut1+ch0 alphabet on <=80 states to N=64: after every Hash fault of a key-adding call 64 further inserts each panicking again in the first element it relocates, every one judged, then the normal continuation; and after every fault that leaves an old table behind a continuation that starts with shrink_to_fit", "E4": "family: growth path to N=64 + states directly after one shaping deviation (<=160 states, chk; N=33, <=18 states asan); every op of the C01-style alphabet (class keys) x every callback kind x every crash point; post-fault oracle, a tour of 12 calls, the growth path across the next resize, shrink/clone/drain; per-call continuations for N<=12"});
            } else {
                for &hk in &HS4 {
                    s.extend(mk(hk, 64, 240, 8, "chk", false, 900.0));
                }
                for &hk in &[H_GOOD, H_LOW] {
                    s.extend(mk(hk, 40, 64, 8, "asan", false, 900.0));
                }
                s.extend(mk(H_TAG, 16, 16, 4, "asan", false, 900.0));
                s.extend(mk(H_GOOD, 33, 48, 8, "chk", true, 900.0));
                s.extend(mk(H_GOOD, 130, 160, 8, "chk", false, 900.0));
                for &hk in &HS4 {
                    s.extend(mk_refault(hk, 130, 200, 4, 900.0));
                }
                bounds = json!({"recurring": "after every Hash fault of a key-adding call: 64 further inserts each panicking again in the first element it relocates, every one judged, then the normal continuation", "E4": "family: growth path to N=64/130 + post-deviation states (<=240 states chk x 4 hashers, <=64 asan x 2 hashers); every op x every callback kind x every crash point; per-call continuations on <=48 states"});
            }
        }
        "C11" => {
            let mk = |ty: &str, hk: u8, n: usize, fam: usize, d3: usize, parts: usize, secs: f64| -> Vec<ShardSpec> {
                (0..parts)
                    .map(|p| {
                        let mut x = e1(prop, ty, hk, 0, "", &["cursor"], n, 0, 0, "chk", secs);
                        x.engine = "e3".into();
                        x.extra.insert("fam".into(), fam.to_string());
                        x.extra.insert("d3".into(), d3.to_string());
                        x.extra.insert("part".into(), p.to_string());
                        x.extra.insert("parts".into(), parts.to_string());
                        x
                    })
                    .collect()
            };
            let deep = |ty: &str, hk: u8, depth: usize, ns: &str, fam: usize, secs: f64| {
                let mut x = e1(prop, ty, hk, 0, "", &["cursor"], 33, 0, 0, "chk", secs);
                x.engine = "e3".into();
                x.extra.insert("fam".into(), fam.to_string());
                x.extra.insert("deep".into(), depth.to_string());
                x.extra.insert("deep_ns".into(), ns.into());
                x.extra.insert("deep_cap".into(), "6000".into());
                x.extra.insert("variants".into(), "2".into());
                x
            };
            if q {
                for &hk in &HS4 {
                    s.push(deep("u32", hk, 3, "15,29,30,31", 24, 45.0));
                }
                s.push(deep("tk", H_LOW, 3, "15,29,31", 16, 45.0));
                s.extend(mk("u32", H_GOOD, 33, 72, 1, 4, 45.0));
                s.extend(mk("tk", H_GOOD, 33, 60, 1, 4, 45.0));
                s.extend(mk("u32", H_LOW, 33, 48, 1, 2, 45.0));
                s.extend(mk("tk", H_CONST, 20, 40, 1, 2, 45.0));
                s.extend(mk("zst", H_GOOD, 4, 40, 1, 1, 45.0));
                // HashSet::clone / clone_from (which delegate to the map's)
                for x in mk("u32", H_GOOD, 33, 60, 1, 2, 45.0).into_iter().chain(mk("tk", H_LOW, 33, 40, 1, 1, 45.0)) {
                    s.push(as_set(x));
                }
                bounds = json!({"sets": "HashSet::clone / clone_from on every ordered pair of <=60 set states (hasher adopted, contents, a working set afterwards)", "E3-deep": "destinations reached by composing up to 3 shaping calls (retain with 5 structural predicates, shrink_to_fit, reserve, removals) from the growth path at 15/29/30/31 elements, x 24 sources, 4 hashers", "E3": "every ordered (source, destination) pair of a family of <=72 states (growth path to N=33 + states directly after one shaping deviation), hasher seed pairs (1,1),(1,2),(2,1), same/disjoint keys; clone(), clone_from(), and each of 12 divergent calls on either side afterwards"});
            } else {
                for &hk in &HS4 {
                    s.extend(mk("u32", hk, 64, 240, 2, 4, 1500.0));
                    s.extend(mk("tk", hk, 40, 160, 2, 4, 1500.0));
                }
                s.extend(mk("u32", H_GOOD, 130, 200, 1, 4, 1500.0));
                s.extend(mk("zst", H_GOOD, 4, 40, 2, 1, 100.0));
                for &hk in &HS4 {
                    s.push(deep("u32", hk, 4, "7,14,15,29,30,31,57,60", 60, 1500.0));
                    s.push(deep("tk", hk, 3, "15,29,31,57", 30, 1500.0));
                }
                bounds = json!({"E3": "every ordered pair of a family of <=240 states (growth path to N=64/130 + post-deviation states), 4 hashers, seed pairs (1,1),(1,2),(2,1); divergent histories of depth <=2"});
            }
        }
        "C13" => {
            let pairs = |ty: &str, hk: u8, n: usize, fam: usize, parts: usize, secs: f64| -> Vec<ShardSpec> {
                (0..parts)
                    .map(|p| {
                        let mut x = e1(prop, ty, hk, 0, "", &["cursor"], n, 0, 0, "chk", secs);
                        x.engine = "e3".into();
                        x.world = "set".into();
                        x.extra.insert("fam".into(), fam.to_string());
                        x.extra.insert("part".into(), p.to_string());
                        x.extra.insert("parts".into(), parts.to_string());
                        x
                    })
                    .collect()
            };
            let set = |mut x: ShardSpec| {
                x.world = "set".into();
                x
            };
            if q {
                for &hk in &HS4 {
                    s.push(set(e1(prop, "u32", hk, 0, "skey+sshape", &["cursor"], 64, 1, 1, "chk", 45.0)));
                }
                s.push(set(e1(prop, "tk", H_GOOD, 0, "skey+sshape", &["cursor"], 40, 1, 1, "chk", 45.0)));
                // plain data with an identity (no drop glue; Eq / Hash ignore a serial number)
                s.push(set(e1(prop, "pod", H_GOOD, 0, "skey+sshape", &["cursor"], 40, 1, 1, "chk", 45.0)));
                s.push(set(e2(prop, "pod", H_LOW, "skey+sshape2", &["cursor"], 3, "chk", 45.0)));
                s.push(set(e1(prop, "u32", H_GOOD, 0, "skey+sshape", &["cursor"], 24, 2, 1, "chk", 45.0)));
                s.push(set(e2(prop, "u32", H_GOOD, "skey+sshape2", &["cursor"], 4, "chk", 45.0)));
                s.push(set(e2(prop, "tk", H_LOW, "skey+sshape2", &["cursor"], 3, "chk", 45.0)));
                s.push(set(e2(prop, "zst", H_GOOD, "skey+sshape2", &["cursor"], 1, "chk", 45.0)));
                // PathBuf elements looked up / taken as &Path in four spellings, plus the siter block
                s.push(set(e1(prop, "u32", H_GOOD, 0, "borrow+siter", &["cursor"], 130, 1, 0, "chk", 45.0)));
                s.push(set(e1(prop, "u32", H_LOW, 0, "skey+sshape/borrow", &["cursor"], 31, 2, 1, "chk", 45.0)));
                s.extend(pairs("u32", H_GOOD, 40, 120, 4, 45.0));
                s.extend(pairs("tk", H_LOW, 33, 80, 2, 45.0));
                s.extend(pairs("zst", H_GOOD, 2, 40, 1, 45.0));
                for &hk in &[H_LOW, H_CONST, H_GOOD] {
                    let mut x = pairs("u32", hk, 33, 20, 1, 45.0).remove(0);
                    x.extra.insert("deep".into(), "3".into());
                    x.extra.insert("deep_ns".into(), "15,29,31".into());
                    s.push(x);
                }
                bounds = json!({"E3-deep": "second operands reached by composing up to 3 shaping calls from 15/29/31 elements x 20 first operands", "E1": "set histories: d<=1 at N=64 (4 hashers), d<=2 at N=24", "E2": "fixpoint u=4/3, ZST", "E3": "every ordered pair of a family of <=120 set states x 4 key-overlap patterns x seed pairs (1,1),(1,2)"});
            } else {
                for &hk in &HS4 {
                    s.push(set(e1(prop, "u32", hk, 0, "skey+sshape", &["cursor"], 130, 1, 1, "chk", 900.0)));
                    s.push(set(e1(prop, "tk", hk, 0, "skey+sshape", &["cursor"], 64, 1, 1, "chk", 900.0)));
                    s.push(set(e1(prop, "u32", hk, 0, "skey+sshape", &["cursor"], 40, 2, 1, "chk", 1200.0)));
                    s.extend(pairs("u32", hk, 64, 500, 4, 1200.0));
                }
                s.push(set(e2(prop, "u32", H_GOOD, "skey+sshape2", &["cursor"], 6, "chk", 1200.0)));
                s.push(set(e2(prop, "tk", H_LOW, "skey+sshape2", &["cursor"], 5, "chk", 1200.0)));
                s.push(set(e2(prop, "u32", H_CONST, "skey+sshape2", &["cursor"], 5, "chk", 1200.0)));
                s.push(set(e2(prop, "zst", H_GOOD, "skey+sshape2", &["cursor"], 1, "chk", 100.0)));
                s.extend(pairs("tk", H_GOOD, 64, 300, 4, 1200.0));
                s.extend(pairs("u32", H_GOOD, 130, 500, 8, 1200.0));
                for &hk in &HS4 {
                    let mut x = pairs("u32", hk, 33, 60, 1, 1200.0).remove(0);
                    x.extra.insert("deep".into(), "4".into());
                    x.extra.insert("deep_ns".into(), "7,14,15,29,30,31,57,60".into());
                    x.extra.insert("deep_cap".into(), "4000".into());
                    s.push(x);
                }
                s.extend(pairs("zst", H_GOOD, 2, 40, 1, 100.0));
                bounds = json!({"E1": "set histories: d<=1 at N=130, d<=2 at N=40 (4 hashers)", "E2": "fixpoint u=6/5, ZST", "E3": "every ordered pair of a family of <=500 set states (to N=64/130) x 4 overlap patterns x 2 seed pairs, 4 hashers; deep second operands (depth 4)"});
            }
        }
        "C14" => {
            let mk = |world: &str, ty: &str, n: usize, rich: bool, parts: usize, secs: f64| -> Vec<ShardSpec> {
                (0..parts)
                    .map(|p| {
                        let mut x = e1(prop, ty, H_GOOD, 0, "", &[], n, 0, 0, "chk", secs);
                        x.engine = "c14".into();
                        x.world = world.into();
                        x.extra.insert("rich".into(), if rich { "1" } else { "0" }.into());
                        x.extra.insert("part".into(), p.to_string());
                        x.extra.insert("parts".into(), parts.to_string());
                        x
                    })
                    .collect()
            };
            if q {
                s.extend(mk("map", "u32", 64, false, 6, 45.0));
                s.extend(mk("set", "u32", 64, false, 4, 45.0));
                s.extend(mk("map", "tk", 33, false, 3, 45.0));
                s.extend(mk("map", "u32", 20, true, 3, 45.0));
                bounds = json!({"classes": "for every n<=64: orders {identity,reverse,rotate} x initial capacity {0,2n+1} x tombstones {0,n/2} x splices {none,reserve mid-way,shrink_to_fit at the end} x hashers {HGood seed 1, HGood seed 2, HLow}; one member per physical layout; all ordered pairs, triples of the first 12, single-element negatives; rich product (5 orders x 3 capacities x 5 splices x 5 hashers) for n<=20"});
            } else {
                s.extend(mk("map", "u32", 260, true, 16, 1500.0));
                s.extend(mk("set", "u32", 260, true, 8, 1500.0));
                s.extend(mk("map", "tk", 130, true, 8, 1500.0));
                s.extend(mk("set", "tk", 130, true, 8, 1500.0));
                bounds = json!({"classes": "for every n<=260 (Tk: 130): 5 orders x 3 initial capacities x 2 tombstone patterns x 5 splices x 5 hasher states; all ordered pairs per class, negatives"});
            }
        }
        "C15" => {
            let mk = |world: &str, ty: &str, hk: u8, n: usize, fam: usize, splits: usize, parts: usize, prof: &str, secs: f64| -> Vec<ShardSpec> {
                (0..parts)
                    .map(|p| {
                        let mut x = e1(prop, ty, hk, 0, "", &["cursor"], n, 0, 0, prof, secs);
                        x.engine = "e5".into();
                        x.world = world.into();
                        x.extra.insert("fam".into(), fam.to_string());
                        x.extra.insert("splits".into(), splits.to_string());
                        x.extra.insert("pools".into(), "16".into());
                        x.extra.insert("part".into(), p.to_string());
                        x.extra.insert("parts".into(), parts.to_string());
                        x
                    })
                    .collect()
            };
            if q {
                s.extend(mk("map", "u32", H_GOOD, 130, 160, 3, 4, "par", 45.0));
                s.extend(mk("map", "u32", H_LOW, 64, 60, 3, 2, "par", 45.0));
                s.extend(mk("map", "tk", H_GOOD, 40, 40, 3, 1, "par", 45.0));
                s.extend(mk("set", "u32", H_GOOD, 40, 24, 3, 4, "par", 45.0));
                s.extend(mk("set", "tk", H_LOW, 24, 12, 2, 1, "par", 45.0));
                s.extend(mk("map", "u32", H_GOOD, 130, 60, 0, 2, "parreal", 45.0));
                s.extend(mk("set", "u32", H_GOOD, 33, 8, 0, 2, "parreal", 45.0));
                bounds = json!({"E5": "rayon stand-in: every script with <=3 splits and every fork order, for 12 parallel map calls at every state of a family of <=160 states (growth path to N=130 + post-deviation states; old tables of 1-8 groups), and 13 parallel set calls on every ordered pair of <=24 set states x 3 key-overlap patterns", "conformance": "the same bodies on the real rayon, thread pools of 1..16 threads (sampled; not the deciding step)"});
            } else {
                for &hk in &HS4 {
                    s.extend(mk("map", "u32", hk, 130, if hk == H_CONST || hk == H_LOW { 100 } else { 200 }, 5, 6, "par", 1500.0));
                }
                s.extend(mk("map", "tk", H_GOOD, 64, 120, 4, 2, "par", 1500.0));
                s.extend(mk("set", "u32", H_GOOD, 64, 60, 4, 8, "par", 1500.0));
                s.extend(mk("set", "u32", H_LOW, 40, 40, 3, 4, "par", 1500.0));
                s.extend(mk("set", "tk", H_GOOD, 33, 24, 3, 2, "par", 1500.0));
                s.extend(mk("map", "u32", H_GOOD, 130, 300, 0, 4, "parreal", 1500.0));
                s.extend(mk("set", "u32", H_GOOD, 40, 20, 0, 4, "parreal", 1500.0));
                bounds = json!({"E5": "every script with <=5 splits (maps) / <=4 (sets) and every fork order; families of <=200 map states (4 hashers) and <=60 set states (all ordered pairs x 3 overlap patterns)", "conformance": "real rayon, pools of 1..16 threads"});
            }
        }
        "C16" => {
            let single = |world: &str, ty: &str, hk: u8, n: usize, secs: f64| {
                let mut x = e1(prop, ty, hk, 0, "", &["cursor"], n, 0, 0, "chk", secs);
                x.engine = "e3s".into();
                x.world = world.into();
                x.extra.insert("fam".into(), "100000".into());
                x
            };
            let pairs = |ty: &str, hk: u8, n: usize, fam: usize, parts: usize, secs: f64| -> Vec<ShardSpec> {
                (0..parts)
                    .map(|p| {
                        let mut x = e1(prop, ty, hk, 0, "", &["cursor"], n, 0, 0, "chk", secs);
                        x.engine = "e3".into();
                        x.world = "set".into();
                        x.extra.insert("fam".into(), fam.to_string());
                        x.extra.insert("part".into(), p.to_string());
                        x.extra.insert("parts".into(), parts.to_string());
                        x
                    })
                    .collect()
            };
            if q {
                for w in ["map", "set"] {
                    for &hk in &[H_GOOD, H_LOW] {
                        s.push(single(w, "u32", hk, 64, 45.0));
                    }
                    s.push(single(w, "tk", H_GOOD, 40, 45.0));
                    s.push(single(w, "zst", H_GOOD, 2, 45.0));
                }
                s.push(single("map", "u32", H_GOOD, 130, 45.0));
                for w in ["map", "set"] {
                    // collections beyond the 4096-element pre-allocation cap: settled (5000) and mid-resize (3600)
                    let mut x = single(w, "u32", H_GOOD, 2, 45.0);
                    x.extra.insert("big".into(), "5000,3600".into());
                    s.push(x);
                }
                s.extend(pairs("u32", H_GOOD, 40, 100, 4, 45.0));
                s.extend(pairs("tk", H_LOW, 24, 60, 2, 45.0));
                for &hk in &[H_LOW, H_CONST, H_GOOD] {
                    let mut x = pairs("u32", hk, 33, 16, 1, 45.0).remove(0);
                    x.extra.insert("deep".into(), "3".into());
                    x.extra.insert("deep_ns".into(), "15,29,31".into());
                    s.push(x);
                }
                bounds = json!({"pairs-deep": "deserialize_in_place into destinations reached by composing up to 3 shaping calls from 15/29/31 elements", "single": "every family state (growth path to N=64/130 + states after one shaping deviation): serde_test token round trip (exact length, order, each element once; deserialize and deserialize_in_place compared with ==) and value-deserializers with size hints {exact, none, 0, 10^9}", "pairs": "HashSet::deserialize_in_place for every ordered (source, destination) pair of <=100 states x 4 hints x 2 seed pairs"});
            } else {
                for w in ["map", "set"] {
                    for &hk in &HS4 {
                        s.push(single(w, "u32", hk, 400, 900.0));
                        s.push(single(w, "tk", hk, 130, 900.0));
                    }
                    s.push(single(w, "zst", H_GOOD, 2, 100.0));
                }
                for &hk in &HS4 {
                    s.extend(pairs("u32", hk, 64, 400, 4, 1200.0));
                    let mut x = pairs("u32", hk, 33, 60, 1, 1200.0).remove(0);
                    x.extra.insert("deep".into(), "4".into());
                    x.extra.insert("deep_ns".into(), "7,14,15,29,30,31,57,60".into());
                    x.extra.insert("deep_cap".into(), "4000".into());
                    s.push(x);
                }
                s.extend(pairs("tk", H_GOOD, 40, 240, 4, 1200.0));
                bounds = json!({"single": "every family state to N=400 (u32) / 130 (Tk), 4 hashers", "pairs": "deserialize_in_place for every ordered pair of <=400 states x 4 hints x 2 seed pairs, 4 hashers; deep destinations (depth 4)"});
            }
        }
        "C17" => {
            // The spaces of C01 (E1/E2) and C10 (argument windows), each run by the chk and the rel
            // binary (compared transcript by transcript) and, for a subset, by the asan binary.
            let mut base: Vec<ShardSpec> = vec![];
            let full = "look+mut+ch1+bulk+shape";
            if q {
                for &hk in &[H_GOOD, H_LOW] {
                    base.push(e1(prop, "u32", hk, 0, full, &[], 64, 1, 1, "chk", 45.0));
                    base.push(e2(prop, "u32", hk, "look1+mut+ch0+shape2", &[], 4, "chk", 45.0));
                }
                base.push(e1(prop, "u32", H_GOOD, 0, "look1+mut+ch0+shape", &[], 24, 2, 1, "chk", 45.0));
                base.push(e1(prop, "u32", H_GOOD, 0, "ch3", &[], 40, 1, 0, "chk", 45.0));
                base.push(e1(prop, "u32", H_GOOD, 0, "iter", &[], 40, 1, 0, "chk", 45.0)); // incl. nth / skip at the integer limits
                base.push(e1(prop, "u32", H_GOOD, 0, "nokey", &[], 40, 1, 0, "chk", 45.0));
                base.push(e1(prop, "u32", H_GOOD, 0, "bulkbig", &[], 31, 1, 0, "chk", 45.0));
                base.push(e1(prop, "u32", H_GOOD, 0, "hintlie", &[], 31, 1, 0, "chk", 45.0));
                base.push(e1(prop, "tk", H_TAG, 0, full, &[], 33, 1, 1, "chk", 45.0));
                base.push(e1(prop, "u32", H_GOOD, 0, "mut1+ch0+shape/capall+caphuge+fill", &["c10"], 24, 2, 1, "chk", 45.0));
                base.push(e1(prop, "u32", H_GOOD, 0, "capall+caphuge", &["c10"], 130, 1, 0, "chk", 45.0));
                base.push(e2(prop, "zst", H_GOOD, "look+mut+ch1+bulk2+shape2+caphuge", &["c10"], 1, "chk", 45.0));
                bounds = json!({"spaces": "C01: E1 d<=1 at N=64, d<=2 at N=24, chains<=3 to N=40, E2 fixpoint u=4; C10: all capacity arguments after <=1 deviation to N=24 and on the growth path to 130", "profiles": "chk vs rel transcripts; asan on the E2 and chain spaces"});
            } else {
                for &hk in &HS4 {
                    base.push(e1(prop, "u32", hk, 0, full, &[], 130, 1, 1, "chk", 900.0));
                    base.push(e1(prop, "u32", hk, 0, "look1+mut+ch0+shape", &[], 48, 2, 1, "chk", 1200.0));
                    base.push(e2(prop, "u32", hk, "look1+mut+ch0+shape2", &[], 5, "chk", 1200.0));
                }
                base.push(e1(prop, "u32", H_GOOD, 0, "ch3", &[], 130, 1, 0, "chk", 900.0));
                base.push(e1(prop, "u32", H_GOOD, 0, "mut1+shape/iter", &[], 64, 2, 0, "chk", 900.0));
                base.push(e1(prop, "u32", H_GOOD, 0, "mut1+shape/nokey", &[], 64, 2, 0, "chk", 900.0));
                base.push(e1(prop, "tk", H_GOOD, 0, full, &[], 130, 1, 1, "chk", 900.0));
                base.push(e1(prop, "tk", H_TAG, 0, "look1+mut+ch0+shape", &[], 33, 2, 1, "chk", 1200.0));
                base.push(e1(prop, "u32", H_GOOD, 0, "mut1+ch0+shape/capall+caphuge+fill", &["c10"], 64, 2, 1, "chk", 1200.0));
                base.push(e1(prop, "u32", H_GOOD, 0, "capall+caphuge", &["c10"], 600, 1, 0, "chk", 900.0));
                base.push(e2(prop, "zst", H_GOOD, "look+mut+ch1+bulk2+shape2+caphuge", &["c10"], 1, "chk", 300.0));
                base.push(e2(prop, "tk", H_GOOD, "look1+mut+ch0+shape2+caphuge", &["c10"], 4, "chk", 1200.0));
                bounds = json!({"spaces": "C01: E1 d<=1 at N=130, d<=2 at N=48, chains<=3 to N=130, E2 fixpoint u=5; C10: all capacity arguments after <=1 deviation to N=64 and on the growth path to 600", "profiles": "chk vs rel transcripts; asan on the E2 and chain spaces"});
            }
            for b in &base {
                s.push(b.clone());
                let mut r = b.clone();
                r.profile = "rel".into();
                s.push(r);
            }
            for b in &base {
                if b.engine == "e2" || b.alpha == "ch3" {
                    let mut a = b.clone();
                    a.profile = "asan".into();
                    if q && a.universe > 3 {
                        a.universe = 3;
                    }
                    if q && a.n > 24 {
                        a.n = 24;
                    }
                    if !q && a.universe > 4 && (a.hk == H_CONST || a.hk == H_LOW) {
                        a.universe = 4; // (the clustering hashers are an order of magnitude slower under asan)
                    }
                    s.push(a);
                }
            }
        }
        _ => return None,
    }
    Some(Plan { level, shards: s, bounds, assumptions: base_assumptions() })
}

pub fn check(prop: &str, tier: &str, t0: Instant) -> i32 {
    let p = match plan(prop, tier) {
        Some(p) => p,
        None => {
            eprintln!("no plan for property {}", prop);
            return 2;
        }
    };
    let ends = run_jobs(p.shards, par(), &format!("{}-{}", prop, tier));
    let mut rep = collect(prop, tier, p.level, ends);
    let mut extra = json!({"bounds": p.bounds});
    if prop == "C15" {
        let real: u64 = rep.results.iter().filter(|r| r.spec.profile == "parreal").map(|r| r.executions).sum();
        let shim: u64 = rep.results.iter().filter(|r| r.spec.profile == "par").map(|r| r.executions).sum();
        extra["scripted_schedules_explored"] = json!(shim);
        extra["real_rayon_runs_agreeing"] = json!(real);
    }
    if prop == "C17" {
        let d = differential(&mut rep, tier);
        extra["profile_pairs_compared"] = json!(d.0);
        extra["transcripts_equal"] = json!(d.1);
    }
    finish(rep, extra, p.assumptions, t0)
}

/// E6: compare the chk and rel transcripts of every shard pair; on a mismatch re-run the first
/// differing chunk with tracing and report the first history whose outcome differs.
fn differential(rep: &mut orch::Report, tier: &str) -> (usize, usize) {
    use std::collections::BTreeMap;
    let mut by: BTreeMap<String, Vec<ShardResult>> = BTreeMap::new();
    for r in &rep.results {
        if r.spec.profile == "asan" {
            continue;
        }
        let mut k = r.spec.clone();
        k.profile = String::new();
        by.entry(serde_json::to_string(&k).unwrap()).or_default().push(r.clone());
    }
    let (mut pairs, mut equal) = (0, 0);
    let mut todo: Vec<(ShardSpec, ShardSpec, u64)> = vec![];
    for (_, v) in by {
        if v.len() != 2 {
            rep.machinery.push(format!("profile pair incomplete for {}", v[0].spec.label()));
            continue;
        }
        pairs += 1;
        let (a, b) = (&v[0], &v[1]);
        if a.digest == b.digest && a.states == b.states && a.transitions == b.transitions {
            equal += 1;
            continue;
        }
        let c = a.chunk_digests.iter().zip(b.chunk_digests.iter()).position(|(x, y)| x != y).unwrap_or(a.chunk_digests.len().min(b.chunk_digests.len())) as u64;
        todo.push((a.spec.clone(), b.spec.clone(), c));
    }
    for (mut a, mut b, c) in todo {
        a.trace_chunk = Some(c);
        b.trace_chunk = Some(c);
        let tag = format!("C17-{}-trace", tier);
        let _ = run_jobs(vec![a.clone(), b.clone()], 2, &tag);
        let dir = orch::root().join("run").join(&tag);
        let mut traces: Vec<Vec<String>> = vec![];
        if let Ok(rd) = std::fs::read_dir(&dir) {
            let mut files: Vec<_> = rd.flatten().map(|e| e.path()).filter(|p| p.to_string_lossy().ends_with(".trace")).collect();
            files.sort();
            for f in files {
                traces.push(std::fs::read_to_string(&f).unwrap_or_default().lines().map(|s| s.to_string()).collect());
            }
        }
        if traces.len() != 2 {
            rep.machinery.push(format!("could not trace chunk {} of {}", c, a.label()));
            continue;
        }
        let n = traces[0].len().min(traces[1].len());
        let i = (0..n).find(|&i| traces[0][i] != traces[1][i]).unwrap_or(n);
        let (l0, l1) = (traces[0].get(i).cloned().unwrap_or_default(), traces[1].get(i).cloned().unwrap_or_default());
        let hist: Vec<String> = l0.split('\t').next().unwrap_or("").split(';').filter(|s| !s.is_empty()).map(|s| s.to_string()).collect();
        let h1: Vec<String> = l1.split('\t').next().unwrap_or("").split(';').filter(|s| !s.is_empty()).map(|s| s.to_string()).collect();
        let hist = if hist.is_empty() { h1 } else { hist };
        let last = hist.last().map(|s| s.split('(').next().unwrap_or("").to_string()).unwrap_or_default();
        let msg = format!("outcome differs between build profiles: chk {} vs rel {}", l0.split('\t').nth(1).unwrap_or("-"), l1.split('\t').nth(1).unwrap_or("-"));
        let v = shard::ViolRec { kind: "diff".into(), msg: msg.clone(), history: hist, sig: format!("diff:profiles disagree op={}", last) };
        rep.violations.push((a.clone(), v));
    }
    (pairs, equal)
}

pub fn transcript_of(spec: &ShardSpec, ops: &[crate::op::Op]) -> String {
    shard::transcript_shard(spec, ops)
}
