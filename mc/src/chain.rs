//! Typed method chains over `Entry` / `RawEntryMut` handles (C12, and the entry part of C01).
//!
//! A chain is a sequence of at most 4 method codes packed 6 bits each (code+1, little end first).
//! Methods of `OccupiedEntry`/`VacantEntry` applied to an `Entry` match on it first; if the variant
//! is the other one the chain simply ends there (`if let Entry::Occupied(e) = ... { .. }`).

use crate::alloc::harness;
use crate::elem::El;
use crate::hasher::{tick, Cb, HB};
use crate::op::{VResult, Viol};
use crate::{vbail, vcheck_eq};
use griddle::hash_map::{Entry, HashMap, OccupiedEntry, RawEntryMut, RawOccupiedEntryMut, RawVacantEntryMut, VacantEntry};
use std::collections::BTreeMap;

pub type M<K, V> = HashMap<K, V, HB>;

// ---- method codes: Entry
pub const E_INSERT: u8 = 0;
pub const E_OR_INSERT: u8 = 1;
pub const E_OR_INSERT_WITH: u8 = 2;
pub const E_OR_INSERT_WITH_KEY: u8 = 3;
pub const E_OR_DEFAULT: u8 = 4;
pub const E_KEY: u8 = 5;
pub const E_AND_MODIFY: u8 = 6;
pub const E_AND_REPLACE_SOME: u8 = 7;
pub const E_AND_REPLACE_NONE: u8 = 8;
// ---- OccupiedEntry
pub const O_KEY: u8 = 10;
pub const O_GET: u8 = 11;
pub const O_GET_MUT: u8 = 12;
pub const O_INTO_MUT: u8 = 13;
pub const O_INSERT: u8 = 14;
pub const O_REMOVE: u8 = 15;
pub const O_REMOVE_ENTRY: u8 = 16;
pub const O_REPLACE_ENTRY: u8 = 17;
pub const O_REPLACE_KEY: u8 = 18;
pub const O_REPLACE_WITH_SOME: u8 = 19;
pub const O_REPLACE_WITH_NONE: u8 = 20;
// ---- VacantEntry
pub const V_KEY: u8 = 21;
pub const V_INTO_KEY: u8 = 22;
pub const V_INSERT: u8 = 23;
// ---- &mut V
pub const R_WRITE: u8 = 24;
pub const R_READ: u8 = 25;
// ---- RawEntryMut
pub const RE_INSERT: u8 = 30;
pub const RE_OR_INSERT: u8 = 31;
pub const RE_OR_INSERT_WITH: u8 = 32;
pub const RE_AND_MODIFY: u8 = 33;
pub const RE_AND_REPLACE_SOME: u8 = 34;
pub const RE_AND_REPLACE_NONE: u8 = 35;
// ---- RawOccupiedEntryMut
pub const RO_KEY: u8 = 36;
pub const RO_KEY_MUT: u8 = 37;
pub const RO_INTO_KEY: u8 = 38;
pub const RO_GET: u8 = 39;
pub const RO_INTO_MUT: u8 = 40;
pub const RO_GET_MUT: u8 = 41;
pub const RO_GET_KEY_VALUE: u8 = 42;
pub const RO_GET_KEY_VALUE_MUT: u8 = 43;
pub const RO_INTO_KEY_VALUE: u8 = 44;
pub const RO_INSERT: u8 = 45;
pub const RO_INSERT_KEY: u8 = 46;
pub const RO_REMOVE: u8 = 47;
pub const RO_REMOVE_ENTRY: u8 = 48;
pub const RO_REPLACE_WITH_SOME: u8 = 49;
pub const RO_REPLACE_WITH_NONE: u8 = 50;
// ---- RawVacantEntryMut
pub const RV_INSERT: u8 = 51;
pub const RV_INSERT_HASHED: u8 = 52;
pub const RV_INSERT_WITH_HASHER: u8 = 53;
/// `insert` of a key *other than* the one the vacant entry was looked up with (the raw API allows it;
/// the element must be filed under its own hash): the smallest absent id ever used, else the key itself.
pub const RV_INSERT_OTHER: u8 = 54;

pub fn mname(c: u8) -> &'static str {
    match c {
        E_INSERT => "insert", E_OR_INSERT => "or_insert", E_OR_INSERT_WITH => "or_insert_with", E_OR_INSERT_WITH_KEY => "or_insert_with_key",
        E_OR_DEFAULT => "or_default", E_KEY => "key", E_AND_MODIFY => "and_modify", E_AND_REPLACE_SOME => "and_replace_entry_with(Some)",
        E_AND_REPLACE_NONE => "and_replace_entry_with(None)", O_KEY => "occ.key", O_GET => "occ.get", O_GET_MUT => "occ.get_mut", O_INTO_MUT => "occ.into_mut",
        O_INSERT => "occ.insert", O_REMOVE => "occ.remove", O_REMOVE_ENTRY => "occ.remove_entry", O_REPLACE_ENTRY => "occ.replace_entry", O_REPLACE_KEY => "occ.replace_key",
        O_REPLACE_WITH_SOME => "occ.replace_entry_with(Some)", O_REPLACE_WITH_NONE => "occ.replace_entry_with(None)", V_KEY => "vac.key", V_INTO_KEY => "vac.into_key",
        V_INSERT => "vac.insert", R_WRITE => "*ref=", R_READ => "*ref", RE_INSERT => "raw.insert", RE_OR_INSERT => "raw.or_insert", RE_OR_INSERT_WITH => "raw.or_insert_with",
        RE_AND_MODIFY => "raw.and_modify", RE_AND_REPLACE_SOME => "raw.and_replace_entry_with(Some)", RE_AND_REPLACE_NONE => "raw.and_replace_entry_with(None)",
        RO_KEY => "rocc.key", RO_KEY_MUT => "rocc.key_mut", RO_INTO_KEY => "rocc.into_key", RO_GET => "rocc.get", RO_INTO_MUT => "rocc.into_mut", RO_GET_MUT => "rocc.get_mut",
        RO_GET_KEY_VALUE => "rocc.get_key_value", RO_GET_KEY_VALUE_MUT => "rocc.get_key_value_mut", RO_INTO_KEY_VALUE => "rocc.into_key_value", RO_INSERT => "rocc.insert",
        RO_INSERT_KEY => "rocc.insert_key", RO_REMOVE => "rocc.remove", RO_REMOVE_ENTRY => "rocc.remove_entry", RO_REPLACE_WITH_SOME => "rocc.replace_entry_with(Some)",
        RO_REPLACE_WITH_NONE => "rocc.replace_entry_with(None)", RV_INSERT => "rvac.insert", RV_INSERT_HASHED => "rvac.insert_hashed_nocheck", RV_INSERT_WITH_HASHER => "rvac.insert_with_hasher",
        RV_INSERT_OTHER => "rvac.insert(another key)",
        _ => "?",
    }
}

/// Does the chain contain a method that may legitimately change which key object is stored for
/// the entry's key (key replacement, `key_mut`, or a removal that a later method re-inserts after)?
pub fn may_replace_key(arg: u64) -> bool {
    decode(arg).iter().any(|&m| {
        matches!(
            m,
            O_REPLACE_ENTRY | O_REPLACE_KEY | RO_INSERT_KEY | RO_KEY_MUT | RO_GET_KEY_VALUE_MUT | O_REMOVE | O_REMOVE_ENTRY | O_REPLACE_WITH_NONE | E_AND_REPLACE_NONE | RE_AND_REPLACE_NONE | RO_REMOVE | RO_REMOVE_ENTRY | RO_REPLACE_WITH_NONE
        )
    })
}

pub fn encode(ms: &[u8]) -> u64 {
    let mut a = 0u64;
    for (i, &m) in ms.iter().enumerate() {
        a |= ((m as u64) + 1) << (6 * i);
    }
    a
}
pub fn decode(mut a: u64) -> Vec<u8> {
    let mut v = vec![];
    while a & 63 != 0 {
        v.push((a & 63) as u8 - 1);
        a >>= 6;
    }
    v
}
pub fn describe(arg: u64, raw: bool) -> String {
    let (b, a) = if raw { (arg & 3, arg >> 2) } else { (0, arg) };
    let ms: Vec<&str> = decode(a).into_iter().map(mname).collect();
    if raw {
        format!("raw_entry_mut().{}.{}", ["from_key", "from_key_hashed_nocheck", "from_hash", "from_hash(one-shot matcher)"][b as usize], ms.join("."))
    } else {
        format!("entry.{}", ms.join("."))
    }
}

/// Static handle types for chain enumeration.
#[derive(Clone, Copy, PartialEq, Eq, Debug)]
pub enum Ty {
    E,
    O,
    /// OccupiedEntry created through `Entry::insert`: holds no spare key, so `replace_entry` /
    /// `replace_key` panic by (hashbrown's documented) design and are not generated.
    ONoKey,
    V,
    R,
    RE,
    RO,
    RV,
    Done,
}
/// (method, result type) available on a handle type; `matching` adds the variant methods on E / RE.
pub fn methods(t: Ty) -> Vec<(u8, Ty)> {
    use Ty::*;
    let o = vec![(O_KEY, O), (O_GET, O), (O_GET_MUT, O), (O_INTO_MUT, R), (O_INSERT, O), (O_REMOVE, Done), (O_REMOVE_ENTRY, Done), (O_REPLACE_ENTRY, Done), (O_REPLACE_KEY, Done), (O_REPLACE_WITH_SOME, E), (O_REPLACE_WITH_NONE, E)];
    let v = vec![(V_KEY, V), (V_INTO_KEY, Done), (V_INSERT, R)];
    let ro = vec![(RO_KEY, RO), (RO_KEY_MUT, RO), (RO_INTO_KEY, Done), (RO_GET, RO), (RO_INTO_MUT, R), (RO_GET_MUT, RO), (RO_GET_KEY_VALUE, RO), (RO_GET_KEY_VALUE_MUT, RO), (RO_INTO_KEY_VALUE, R), (RO_INSERT, RO), (RO_INSERT_KEY, RO), (RO_REMOVE, Done), (RO_REMOVE_ENTRY, Done), (RO_REPLACE_WITH_SOME, RE), (RO_REPLACE_WITH_NONE, RE)];
    let rv = vec![(RV_INSERT, R), (RV_INSERT_HASHED, R), (RV_INSERT_WITH_HASHER, R), (RV_INSERT_OTHER, Done)];
    match t {
        ONoKey => o.into_iter().filter(|&(m, _)| m != O_REPLACE_ENTRY && m != O_REPLACE_KEY).map(|(m, t)| (m, if t == O { ONoKey } else { t })).collect(),
        E => {
            let mut m = vec![(E_INSERT, ONoKey), (E_OR_INSERT, R), (E_OR_INSERT_WITH, R), (E_OR_INSERT_WITH_KEY, R), (E_OR_DEFAULT, R), (E_KEY, E), (E_AND_MODIFY, E), (E_AND_REPLACE_SOME, E), (E_AND_REPLACE_NONE, E)];
            m.extend(o);
            m.extend(v);
            m
        }
        O => o,
        V => v,
        R => vec![(R_WRITE, Done), (R_READ, Done)],
        RE => {
            let mut m = vec![(RE_INSERT, RO), (RE_OR_INSERT, R), (RE_OR_INSERT_WITH, R), (RE_AND_MODIFY, RE), (RE_AND_REPLACE_SOME, RE), (RE_AND_REPLACE_NONE, RE)];
            m.extend(ro);
            m.extend(rv);
            m
        }
        RO => ro,
        RV => rv,
        Done => vec![],
    }
}
fn readonly(m: u8) -> bool {
    matches!(m, E_KEY | O_KEY | O_GET | V_KEY | R_READ | RO_KEY | RO_GET | RO_GET_KEY_VALUE)
}
/// All type-correct chains of length 1..=depth starting from `start`.  Read-only accessors are
/// only generated in the last position or directly before the last (they do not change the handle).
pub fn all_chains(start: Ty, depth: usize) -> Vec<Vec<u8>> {
    fn rec(t: Ty, depth: usize, cur: &mut Vec<u8>, out: &mut Vec<Vec<u8>>) {
        if depth == 0 {
            return;
        }
        // a handle that descends from `Entry::insert` holds no spare key: `replace_entry` /
        // `replace_key` panic by hashbrown's documented design
        let nokey = cur.contains(&E_INSERT);
        for (m, nt) in methods(t) {
            if nokey && (m == O_REPLACE_ENTRY || m == O_REPLACE_KEY) {
                continue;
            }
            // two read-only accessors in a row add nothing
            if readonly(m) && cur.last().map_or(false, |&p| readonly(p)) {
                continue;
            }
            cur.push(m);
            out.push(cur.clone());
            rec(nt, depth - 1, cur, out);
            cur.pop();
        }
    }
    let mut out = vec![];
    rec(start, depth, &mut vec![], &mut out);
    out
}

enum St<'a, K, V> {
    E(Entry<'a, K, V, HB>),
    O(OccupiedEntry<'a, K, V, HB>),
    V(VacantEntry<'a, K, V, HB>),
    R(&'a mut V),
    RE(RawEntryMut<'a, K, V, HB>),
    RO(RawOccupiedEntryMut<'a, K, V, HB>),
    RV(RawVacantEntryMut<'a, K, V, HB>),
    Done,
}

/// The reference map, with every mutation under a `harness` guard (its node allocations are not
/// the subject's).
pub struct RefMap<'a>(pub &'a mut BTreeMap<u32, u32>, pub &'a mut ChainInfo);
impl RefMap<'_> {
    pub fn insert(&mut self, k: u32, v: u32) -> Option<u32> {
        let o = harness(|| self.0.insert(k, v));
        if o.is_none() {
            self.1.inserted = true;
            self.1.inserts += 1;
        }
        o
    }
    pub fn remove(&mut self, k: &u32) -> Option<u32> {
        let o = harness(|| self.0.remove(k));
        if o.is_some() {
            self.1.removed = true;
        }
        o
    }
    pub fn get(&self, k: &u32) -> Option<&u32> {
        self.0.get(k)
    }
    pub fn get_mut(&mut self, k: &u32) -> Option<&mut u32> {
        self.0.get_mut(k)
    }
    pub fn contains_key(&self, k: &u32) -> bool {
        self.0.contains_key(k)
    }
    pub fn or_insert(&mut self, k: u32, v: u32) -> u32 {
        if !self.0.contains_key(&k) {
            self.1.inserted = true;
            self.1.inserts += 1;
        }
        harness(|| *self.0.entry(k).or_insert(v))
    }
}

/// Next logical value for key `k` given the reference.
#[inline]
pub fn nv(r: &BTreeMap<u32, u32>, k: u32) -> u32 {
    r.get(&k).map_or(0, |v| (v + 1) % 3)
}

/// Run an entry chain on the subject, mirroring it on the reference and checking every accessor.
/// Returns a digest of the observations.
#[derive(Clone, Copy, Debug, Default)]
pub struct ChainInfo {
    pub obs: u64,
    /// the chain stored a new element (the key was absent at that point)
    pub inserted: bool,
    /// number of insertions of a new element the chain performed
    pub inserts: u32,
    /// the chain removed an element
    pub removed: bool,
}

pub fn run_entry_chain<K: El, V: El>(m: &mut M<K, V>, r: &mut BTreeMap<u32, u32>, key: u32, arg: u64, raw: bool) -> VResult<ChainInfo> {
    let mut info = ChainInfo::default();
    let res = run_entry_chain_inner::<K, V>(m, r, key, arg, raw, &mut info);
    res.map(|obs| {
        info.obs = obs;
        info
    })
}

fn run_entry_chain_inner<K: El, V: El>(m: &mut M<K, V>, r: &mut BTreeMap<u32, u32>, key: u32, arg: u64, raw: bool, info: &mut ChainInfo) -> VResult<u64> {
    let r = &mut RefMap(r, info);
    let lk = K::norm(key);
    let (builder, code) = if raw { (arg & 3, arg >> 2) } else { (0, arg) };
    let ms = harness(|| decode(code));
    let mut obs: u64 = 0;
    let hb = HB { kind: m.hasher().kind, seed: m.hasher().seed };
    // which key object is stored now / which one the entry is given (identity-observable key types)
    // (found by iteration, not by lookup: the work monitors count every hash and comparison of the call)
    let pre_obj: Option<u64> = if K::IDENT { m.iter().find(|(k, _)| k.id() == lk).map(|(k, _)| k.obj()) } else { None };
    let mut entry_obj: u64 = 0;
    let mut expect_stored: Option<u64> = None;
    let mut st: St<'_, K, V> = if raw {
        let b = m.raw_entry_mut();
        let kk = harness(|| K::mk(key, true));
        let h = hb.hash_of(if K::ZST { 0 } else { key as u64 });
        let e = match builder {
            0 => b.from_key(&kk),
            1 => b.from_key_hashed_nocheck(h, &kk),
            2 => b.from_hash(h, |q| q.id() == lk),
            _ => {
                // a stateful (FnMut) matcher that says yes once: a lookup asks about the matching key once
                let mut asked = false;
                b.from_hash(h, move |q| {
                    if q.id() == lk && !asked {
                        asked = true;
                        true
                    } else {
                        false
                    }
                })
            }
        };
        harness(|| drop(kk));
        St::RE(e)
    } else {
        let ek = harness(|| K::mk(key, true));
        entry_obj = ek.obj();
        St::E(m.entry(ek))
    };
    // initial coherence: Occupied <=> present
    match &st {
        St::E(Entry::Occupied(_)) | St::RE(RawEntryMut::Occupied(_)) => {
            if !r.contains_key(&lk) {
                vbail!("mismatch", "lookup of absent key {} reports Occupied", key);
            }
        }
        _ => {
            if r.contains_key(&lk) {
                vbail!("mismatch", "lookup of present key {} reports Vacant", key);
            }
        }
    }
    let mut no_key = false;
    for &mc in &ms {
        // match Entry -> Occupied/Vacant when a variant method is requested
        st = match (st, mc) {
            (St::E(Entry::Occupied(o)), 10..=20) => St::O(o),
            (St::E(Entry::Vacant(v)), 21..=23) => St::V(v),
            (St::E(_), 10..=23) => return Ok(obs ^ 0xE0),
            (St::RE(RawEntryMut::Occupied(o)), 36..=50) => St::RO(o),
            (St::RE(RawEntryMut::Vacant(v)), 51..=54) => St::RV(v),
            (St::RE(_), 36..=54) => return Ok(obs ^ 0xE1),
            (s, _) => s,
        };
        obs = obs.wrapping_mul(31).wrapping_add(mc as u64 + 1);
        st = match (st, mc) {
            // ------------------------------------------------ Entry
            (St::E(e), E_INSERT) => {
                let v = nv(r.0, lk);
                let o = e.insert(harness(|| V::mk(v, false)));
                // (a handle made by Entry::insert on a vacant entry holds no spare key)
                no_key = r.insert(lk, V::norm(v)).is_none();
                vcheck_eq!("Entry::insert -> occ.get", o.get().id(), V::norm(v));
                vcheck_eq!("Entry::insert -> occ.key", o.key().id(), lk);
                St::O(o)
            }
            (St::E(e), E_OR_INSERT) => {
                let v = nv(r.0, lk);
                let rf = e.or_insert(harness(|| V::mk(v, false)));
                let want = r.or_insert(lk, V::norm(v));
                vcheck_eq!("or_insert", rf.id(), want);
                St::R(rf)
            }
            (St::E(e), E_OR_INSERT_WITH) => {
                let v = nv(r.0, lk);
                let present = r.contains_key(&lk);
                let mut called = false;
                let rf = e.or_insert_with(|| {
                    called = true;
                    tick(Cb::Closure);
                    harness(|| V::mk(v, false))
                });
                vcheck_eq!("or_insert_with closure called", called, !present);
                let want = r.or_insert(lk, V::norm(v));
                vcheck_eq!("or_insert_with", rf.id(), want);
                St::R(rf)
            }
            (St::E(e), E_OR_INSERT_WITH_KEY) => {
                let v = nv(r.0, lk);
                let present = r.contains_key(&lk);
                let mut seen = None;
                let rf = e.or_insert_with_key(|k| {
                    seen = Some(k.id());
                    tick(Cb::Closure);
                    harness(|| V::mk(v, false))
                });
                vcheck_eq!("or_insert_with_key closure key", seen, if present { None } else { Some(lk) });
                let want = r.or_insert(lk, V::norm(v));
                vcheck_eq!("or_insert_with_key", rf.id(), want);
                St::R(rf)
            }
            (St::E(e), E_OR_DEFAULT) => {
                let rf = e.or_default();
                let want = r.or_insert(lk, 0);
                vcheck_eq!("or_default", rf.id(), want);
                St::R(rf)
            }
            (St::E(e), E_KEY) => {
                vcheck_eq!("Entry::key", e.key().id(), lk);
                St::E(e)
            }
            (St::E(e), E_AND_MODIFY) => {
                let v = nv(r.0, lk);
                let mut called = false;
                let e = e.and_modify(|x| {
                    called = true;
                    tick(Cb::Closure);
                    x.set(V::norm(v))
                });
                vcheck_eq!("and_modify closure called", called, r.contains_key(&lk));
                if let Some(x) = r.get_mut(&lk) {
                    *x = V::norm(v);
                }
                St::E(e)
            }
            (St::E(e), E_AND_REPLACE_SOME) | (St::E(e), E_AND_REPLACE_NONE) => {
                let some = mc == E_AND_REPLACE_SOME;
                let v = nv(r.0, lk);
                let mut seen = None;
                let e = e.and_replace_entry_with(|k, old| {
                    tick(Cb::Closure);
                    seen = Some((k.id(), old.id()));
                    harness(|| drop(old));
                    if some {
                        Some(harness(|| V::mk(v, false)))
                    } else {
                        None
                    }
                });
                vcheck_eq!("and_replace_entry_with closure args", seen, r.get(&lk).map(|&x| (lk, x)));
                if r.contains_key(&lk) {
                    if some {
                        r.insert(lk, V::norm(v));
                    } else {
                        r.remove(&lk);
                    }
                }
                vcheck_eq!("and_replace_entry_with result variant", matches!(e, Entry::Occupied(_)), r.contains_key(&lk));
                St::E(e)
            }
            // ------------------------------------------------ Occupied
            (St::O(o), O_KEY) => {
                vcheck_eq!("occ.key", o.key().id(), lk);
                St::O(o)
            }
            (St::O(o), O_GET) => {
                vcheck_eq!("occ.get", Some(o.get().id()), r.get(&lk).copied());
                St::O(o)
            }
            (St::O(mut o), O_GET_MUT) => {
                let v = nv(r.0, lk);
                vcheck_eq!("occ.get_mut read", Some(o.get_mut().id()), r.get(&lk).copied());
                o.get_mut().set(V::norm(v));
                r.insert(lk, V::norm(v));
                St::O(o)
            }
            (St::O(o), O_INTO_MUT) => {
                let rf = o.into_mut();
                vcheck_eq!("occ.into_mut", Some(rf.id()), r.get(&lk).copied());
                St::R(rf)
            }
            (St::O(mut o), O_INSERT) => {
                let v = nv(r.0, lk);
                let old = o.insert(harness(|| V::mk(v, false)));
                vcheck_eq!("occ.insert returned", Some(old.id()), r.insert(lk, V::norm(v)));
                harness(|| drop(old));
                St::O(o)
            }
            (St::O(o), O_REMOVE) => {
                let old = o.remove();
                vcheck_eq!("occ.remove", Some(old.id()), r.remove(&lk));
                harness(|| drop(old));
                St::Done
            }
            (St::O(o), O_REMOVE_ENTRY) => {
                let (k, old) = o.remove_entry();
                vcheck_eq!("occ.remove_entry", Some((k.id(), old.id())), r.remove(&lk).map(|x| (lk, x)));
                harness(|| drop((k, old)));
                St::Done
            }
            (St::O(o), O_REPLACE_ENTRY) | (St::O(o), O_REPLACE_KEY) if no_key => {
                // hashbrown documents that replace_key / replace_entry panic on such a handle.  A panic
                // (an ordinary, catchable one that leaves the element alone) or a normal return are both
                // fine; what must not happen is anything worse (the worker dying, a torn element).
                let v = nv(r.0, lk);
                let res = crate::util::catch(move || {
                    if mc == O_REPLACE_KEY {
                        let k = o.replace_key();
                        harness(|| drop(k));
                        false
                    } else {
                        let kv = o.replace_entry(harness(|| V::mk(v, false)));
                        harness(|| drop(kv));
                        true
                    }
                });
                match res {
                    Ok(true) => {
                        r.insert(lk, V::norm(v));
                    }
                    Ok(false) => {}
                    Err(msg) if msg.contains("`None`") => {}
                    Err(msg) => vbail!("panic", "{} on a handle made by Entry::insert: {}", mname(mc), msg),
                }
                St::Done
            }
            (St::O(o), O_REPLACE_ENTRY) => {
                let v = nv(r.0, lk);
                let (k, old) = o.replace_entry(harness(|| V::mk(v, false)));
                vcheck_eq!("occ.replace_entry", Some((k.id(), old.id())), r.insert(lk, V::norm(v)).map(|x| (lk, x)));
                if K::IDENT && expect_stored.is_none() {
                    // the key that was stored comes back, the entry's own key takes its place
                    vcheck_eq!("occ.replace_entry returns the key that was stored (object)", Some(k.obj()), pre_obj);
                    expect_stored = Some(entry_obj);
                }
                harness(|| drop((k, old)));
                St::Done
            }
            (St::O(o), O_REPLACE_KEY) => {
                let k = o.replace_key();
                vcheck_eq!("occ.replace_key", k.id(), lk);
                if K::IDENT && expect_stored.is_none() {
                    vcheck_eq!("occ.replace_key returns the key that was stored (object)", Some(k.obj()), pre_obj);
                    expect_stored = Some(entry_obj);
                }
                harness(|| drop(k));
                St::Done
            }
            (St::O(o), O_REPLACE_WITH_SOME) | (St::O(o), O_REPLACE_WITH_NONE) => {
                let some = mc == O_REPLACE_WITH_SOME;
                let v = nv(r.0, lk);
                let mut seen = None;
                let e = o.replace_entry_with(|k, old| {
                    tick(Cb::Closure);
                    seen = Some((k.id(), old.id()));
                    harness(|| drop(old));
                    if some {
                        Some(harness(|| V::mk(v, false)))
                    } else {
                        None
                    }
                });
                vcheck_eq!("replace_entry_with closure args", seen, r.get(&lk).map(|&x| (lk, x)));
                if some {
                    r.insert(lk, V::norm(v));
                } else {
                    r.remove(&lk);
                }
                vcheck_eq!("replace_entry_with result variant", matches!(e, Entry::Occupied(_)), some);
                St::E(e)
            }
            // ------------------------------------------------ Vacant
            (St::V(v), V_KEY) => {
                vcheck_eq!("vac.key", v.key().id(), lk);
                St::V(v)
            }
            (St::V(v), V_INTO_KEY) => {
                let k = v.into_key();
                vcheck_eq!("vac.into_key", k.id(), lk);
                harness(|| drop(k));
                St::Done
            }
            (St::V(ve), V_INSERT) => {
                let v = nv(r.0, lk);
                let rf = ve.insert(harness(|| V::mk(v, false)));
                if r.insert(lk, V::norm(v)).is_some() {
                    vbail!("mismatch", "vacant handle for present key {}", key);
                }
                vcheck_eq!("vac.insert", rf.id(), V::norm(v));
                St::R(rf)
            }
            // ------------------------------------------------ &mut V
            (St::R(rf), R_WRITE) => {
                let v = nv(r.0, lk);
                vcheck_eq!("ref read before write", Some(rf.id()), r.get(&lk).copied());
                rf.set(V::norm(v));
                r.insert(lk, V::norm(v));
                St::Done
            }
            (St::R(rf), R_READ) => {
                vcheck_eq!("ref read", Some(rf.id()), r.get(&lk).copied());
                St::Done
            }
            // ------------------------------------------------ RawEntryMut
            (St::RE(e), RE_INSERT) => {
                let v = nv(r.0, lk);
                let o = e.insert(harness(|| K::mk(key, true)), harness(|| V::mk(v, false)));
                r.insert(lk, V::norm(v));
                vcheck_eq!("RawEntryMut::insert -> get", o.get().id(), V::norm(v));
                vcheck_eq!("RawEntryMut::insert -> key", o.key().id(), lk);
                St::RO(o)
            }
            (St::RE(e), RE_OR_INSERT) => {
                let v = nv(r.0, lk);
                let (k, rf) = e.or_insert(harness(|| K::mk(key, true)), harness(|| V::mk(v, false)));
                let want = r.or_insert(lk, V::norm(v));
                vcheck_eq!("raw or_insert key", k.id(), lk);
                vcheck_eq!("raw or_insert", rf.id(), want);
                St::R(rf)
            }
            (St::RE(e), RE_OR_INSERT_WITH) => {
                let v = nv(r.0, lk);
                let present = r.contains_key(&lk);
                let mut called = false;
                let (k, rf) = e.or_insert_with(|| {
                    called = true;
                    tick(Cb::Closure);
                    harness(|| (K::mk(key, true), V::mk(v, false)))
                });
                vcheck_eq!("raw or_insert_with closure called", called, !present);
                let want = r.or_insert(lk, V::norm(v));
                vcheck_eq!("raw or_insert_with key", k.id(), lk);
                vcheck_eq!("raw or_insert_with", rf.id(), want);
                St::R(rf)
            }
            (St::RE(e), RE_AND_MODIFY) => {
                let v = nv(r.0, lk);
                let mut seen = None;
                let e = e.and_modify(|k, x| {
                    tick(Cb::Closure);
                    seen = Some(k.id());
                    x.set(V::norm(v))
                });
                vcheck_eq!("raw and_modify closure key", seen, if r.contains_key(&lk) { Some(lk) } else { None });
                if let Some(x) = r.get_mut(&lk) {
                    *x = V::norm(v);
                }
                St::RE(e)
            }
            (St::RE(e), RE_AND_REPLACE_SOME) | (St::RE(e), RE_AND_REPLACE_NONE) => {
                let some = mc == RE_AND_REPLACE_SOME;
                let v = nv(r.0, lk);
                let mut seen = None;
                let e = e.and_replace_entry_with(|k, old| {
                    tick(Cb::Closure);
                    seen = Some((k.id(), old.id()));
                    harness(|| drop(old));
                    if some {
                        Some(harness(|| V::mk(v, false)))
                    } else {
                        None
                    }
                });
                vcheck_eq!("raw and_replace_entry_with closure args", seen, r.get(&lk).map(|&x| (lk, x)));
                if r.contains_key(&lk) {
                    if some {
                        r.insert(lk, V::norm(v));
                    } else {
                        r.remove(&lk);
                    }
                }
                vcheck_eq!("raw and_replace_entry_with result variant", matches!(e, RawEntryMut::Occupied(_)), r.contains_key(&lk));
                St::RE(e)
            }
            // ------------------------------------------------ RawOccupied
            (St::RO(o), RO_KEY) => {
                vcheck_eq!("rocc.key", o.key().id(), lk);
                St::RO(o)
            }
            (St::RO(mut o), RO_KEY_MUT) => {
                vcheck_eq!("rocc.key_mut", o.key_mut().id(), lk);
                // replace the key by an equal one (allowed: same hash, same Eq class)
                let old = std::mem::replace(o.key_mut(), harness(|| K::mk(key, true)));
                harness(|| drop(old));
                St::RO(o)
            }
            (St::RO(o), RO_INTO_KEY) => {
                vcheck_eq!("rocc.into_key", o.into_key().id(), lk);
                St::Done
            }
            (St::RO(o), RO_GET) => {
                vcheck_eq!("rocc.get", Some(o.get().id()), r.get(&lk).copied());
                St::RO(o)
            }
            (St::RO(o), RO_INTO_MUT) => {
                let rf = o.into_mut();
                vcheck_eq!("rocc.into_mut", Some(rf.id()), r.get(&lk).copied());
                St::R(rf)
            }
            (St::RO(mut o), RO_GET_MUT) => {
                let v = nv(r.0, lk);
                vcheck_eq!("rocc.get_mut read", Some(o.get_mut().id()), r.get(&lk).copied());
                o.get_mut().set(V::norm(v));
                r.insert(lk, V::norm(v));
                St::RO(o)
            }
            (St::RO(mut o), RO_GET_KEY_VALUE) => {
                let (k, v) = o.get_key_value();
                vcheck_eq!("rocc.get_key_value", Some((k.id(), v.id())), r.get(&lk).map(|&x| (lk, x)));
                St::RO(o)
            }
            (St::RO(mut o), RO_GET_KEY_VALUE_MUT) => {
                let v = nv(r.0, lk);
                {
                    let (k, x) = o.get_key_value_mut();
                    vcheck_eq!("rocc.get_key_value_mut", Some((k.id(), x.id())), r.get(&lk).map(|&x| (lk, x)));
                    x.set(V::norm(v));
                }
                r.insert(lk, V::norm(v));
                St::RO(o)
            }
            (St::RO(o), RO_INTO_KEY_VALUE) => {
                let (k, rf) = o.into_key_value();
                vcheck_eq!("rocc.into_key_value", Some((k.id(), rf.id())), r.get(&lk).map(|&x| (lk, x)));
                St::R(rf)
            }
            (St::RO(mut o), RO_INSERT) => {
                let v = nv(r.0, lk);
                let old = o.insert(harness(|| V::mk(v, false)));
                vcheck_eq!("rocc.insert returned", Some(old.id()), r.insert(lk, V::norm(v)));
                harness(|| drop(old));
                St::RO(o)
            }
            (St::RO(mut o), RO_INSERT_KEY) => {
                let old = o.insert_key(harness(|| K::mk(key, true)));
                vcheck_eq!("rocc.insert_key returned", old.id(), lk);
                harness(|| drop(old));
                St::RO(o)
            }
            (St::RO(o), RO_REMOVE) => {
                let old = o.remove();
                vcheck_eq!("rocc.remove", Some(old.id()), r.remove(&lk));
                harness(|| drop(old));
                St::Done
            }
            (St::RO(o), RO_REMOVE_ENTRY) => {
                let (k, old) = o.remove_entry();
                vcheck_eq!("rocc.remove_entry", Some((k.id(), old.id())), r.remove(&lk).map(|x| (lk, x)));
                harness(|| drop((k, old)));
                St::Done
            }
            (St::RO(o), RO_REPLACE_WITH_SOME) | (St::RO(o), RO_REPLACE_WITH_NONE) => {
                let some = mc == RO_REPLACE_WITH_SOME;
                let v = nv(r.0, lk);
                let mut seen = None;
                let e = o.replace_entry_with(|k, old| {
                    tick(Cb::Closure);
                    seen = Some((k.id(), old.id()));
                    harness(|| drop(old));
                    if some {
                        Some(harness(|| V::mk(v, false)))
                    } else {
                        None
                    }
                });
                vcheck_eq!("rocc.replace_entry_with closure args", seen, r.get(&lk).map(|&x| (lk, x)));
                if some {
                    r.insert(lk, V::norm(v));
                } else {
                    r.remove(&lk);
                }
                vcheck_eq!("rocc.replace_entry_with result variant", matches!(e, RawEntryMut::Occupied(_)), some);
                St::RE(e)
            }
            // ------------------------------------------------ RawVacant
            (St::RV(ve), RV_INSERT) | (St::RV(ve), RV_INSERT_HASHED) | (St::RV(ve), RV_INSERT_WITH_HASHER) => {
                let v = nv(r.0, lk);
                let h = hb.hash_of(if K::ZST { 0 } else { key as u64 });
                let kk = harness(|| K::mk(key, true));
                let vv = harness(|| V::mk(v, false));
                let (k, rf) = match mc {
                    RV_INSERT => ve.insert(kk, vv),
                    RV_INSERT_HASHED => ve.insert_hashed_nocheck(h, kk, vv),
                    _ => {
                        let hb2 = HB { kind: hb.kind, seed: hb.seed };
                        ve.insert_with_hasher(h, kk, vv, move |q: &K| {
                            tick(Cb::Hash);
                            hb2.hash_of(if K::ZST { 0 } else { q.id() as u64 })
                        })
                    }
                };
                if r.insert(lk, V::norm(v)).is_some() {
                    vbail!("mismatch", "raw vacant handle for present key {}", key);
                }
                vcheck_eq!("rvac.insert key", k.id(), lk);
                vcheck_eq!("rvac.insert", rf.id(), V::norm(v));
                St::R(rf)
            }
            (St::RV(ve), RV_INSERT_OTHER) => {
                let top = r.0.keys().next_back().map_or(0, |k| k + 1);
                let alt = if K::ZST { key } else { (0..top).find(|a| *a != key && !r.contains_key(a)).unwrap_or(key) };
                let la = K::norm(alt);
                let v = nv(r.0, la);
                let kk = harness(|| K::mk(alt, true));
                let vv = harness(|| V::mk(v, false));
                let (k, rf) = ve.insert(kk, vv);
                if r.insert(la, V::norm(v)).is_some() {
                    vbail!("mismatch", "raw vacant handle: key {} was present", alt);
                }
                vcheck_eq!("rvac.insert(another key) key", k.id(), la);
                vcheck_eq!("rvac.insert(another key)", rf.id(), V::norm(v));
                St::Done
            }
            (_, _) => return Err(Viol::new("machinery", format!("chain {:?} is not type-correct at {}", ms, mname(mc)))),
        };
    }
    drop(st);
    if let Some(want) = expect_stored {
        let now = m.iter().find(|(k, _)| k.id() == lk).map(|(k, _)| k.obj());
        if now != Some(want) {
            vbail!("mismatch", "after replace_key / replace_entry the stored key object is {:?}, expected the entry's own key ({})", now, want);
        }
    }
    Ok(obs)
}
