//! The map world: a real `griddle::HashMap<T, T, HB>` next to a `BTreeMap<u32, u32>` reference,
//! with per-call monitors (C02/C03), state audits (C01/C04/C05) and a drop ledger (C06).

use crate::alloc::{self, harness, window};
use crate::chain::{self, nv, M};
use crate::elem::{self, El};
use crate::hasher::{self, set_default_hb, tick, Cb, HB};
use crate::op::*;
use crate::util::{catch, hash_dump, H128};
use crate::{vbail, vcheck_eq};
use griddle::verif::{Dump, Stats, R};
use std::collections::{BTreeMap, BTreeSet};

#[derive(Clone, Copy, Debug, Default)]
pub struct Flags {
    /// per-call work bounds (C02)
    pub c02: bool,
    /// resize progress and table count (C03)
    pub c03: bool,
    /// cached-cursor agreement in every audit (C05)
    pub cursor: bool,
    /// capacity contracts on capacity calls (C10)
    pub c10: bool,
    /// full audit after every op (otherwise the engine decides)
    pub audit_each: bool,
    /// never dump the tables in the per-call monitors (scale sweeps): where a removed key lived is
    /// inferred from the table lengths instead
    pub cheap: bool,
}

#[derive(Clone, Debug)]
pub struct Cfg {
    pub hk: u8,
    pub seed: u64,
    pub cap0: usize,
    pub flags: Flags,
}

/// Symbolic key classes resolved on the current physical state.
#[derive(Clone, Debug, Default)]
pub struct Classes {
    pub new: u32,
    pub reuse: Option<u32>,
    pub main_a: Option<u32>,
    pub main_b: Option<u32>,
    pub old_next: Option<u32>,
    pub old_same: Option<u32>,
    pub old_beyond: Option<u32>,
    pub old_last: Option<u32>,
}
impl Classes {
    /// Distinct representatives, simplest first.
    pub fn reps(&self) -> Vec<u32> {
        let mut v = vec![self.new];
        for x in [self.reuse, self.main_a, self.main_b, self.old_next, self.old_same, self.old_beyond, self.old_last].into_iter().flatten() {
            if !v.contains(&x) {
                v.push(x);
            }
        }
        v
    }
    pub fn present_reps(&self) -> Vec<u32> {
        let mut v = vec![];
        for x in [self.main_a, self.main_b, self.old_next, self.old_same, self.old_beyond, self.old_last].into_iter().flatten() {
            if !v.contains(&x) {
                v.push(x);
            }
        }
        v
    }
}

#[derive(Clone, Copy, Debug)]
pub struct CallStats {
    pub s0: Stats,
    pub s1: Stats,
    pub hashes: u64,
    pub allocs: u64,
    pub calls: u32,
}

pub struct MapWorld<T: El> {
    pub m: M<T, T>,
    pub r: BTreeMap<u32, u32>,
    /// ids 0..next_key have been used as keys
    pub next_key: u32,
    pub cfg: Cfg,
    pub st: Option<CallStats>,
    /// iterators were forgotten: leak checks off
    pub leaky: bool,
    /// key-adding calls left until a started resize must be complete (C03)
    pub deadline: Option<usize>,
    /// the old table was emptied by retain / replace_entry_with and may linger until the next
    /// key-adding call, clear or drain (C03's weaker clause)
    pub lazy_empty_ok: bool,
    pub ops_done: u32,
    pub chain_info: chain::ChainInfo,
    /// false after a deliberate logic error (an element stored under a wrong hash): from then on
    /// only the safety oracles run (ledger, canaries, cursor agreement, len == iterated entries)
    pub model_on: bool,
}

const VMOD: u32 = 3;

fn stats_eq_tables(a: &Stats, b: &Stats) -> bool {
    a.main_buckets == b.main_buckets && a.old.map(|o| o.1) == b.old.map(|o| o.1)
}

impl<T: El> MapWorld<T> {
    pub fn create(cfg: &Cfg) -> VResult<Self> {
        set_default_hb(cfg.hk, cfg.seed);
        let cap0 = cfg.cap0;
        let (hk, seed) = (cfg.hk, cfg.seed);
        let m = catch(|| window(|| M::<T, T>::with_capacity_and_hasher(cap0, HB::new(hk, seed)))).map_err(|e| Viol::new("panic", format!("with_capacity({}): {}", cap0, e)))?;
        if m.capacity() < cap0 {
            vbail!("contract", "with_capacity({}) gives capacity {}", cap0, m.capacity());
        }
        Ok(MapWorld { m, r: BTreeMap::new(), next_key: 0, cfg: cfg.clone(), st: None, leaky: false, deadline: None, lazy_empty_ok: false, ops_done: 0, chain_info: Default::default(), model_on: true })
    }

    #[inline]
    fn call<X>(&mut self, f: impl FnOnce(&mut M<T, T>) -> X) -> X {
        let s0 = self.m.verif_stats();
        let c0 = hasher::counts()[0];
        hasher::hlog_mark();
        let a0 = alloc::allocs();
        let m = &mut self.m;
        let x = window(|| f(m));
        let calls = self.st.map_or(0, |s| s.calls) + 1;
        self.st = Some(CallStats { s0, s1: self.m.verif_stats(), hashes: hasher::counts()[0] - c0, allocs: alloc::allocs() - a0, calls });
        x
    }

    #[inline]
    fn lk(k: u32) -> u32 {
        T::norm(k)
    }
    #[inline]
    fn mkk(k: u32) -> T {
        T::mk(k, true)
    }
    #[inline]
    fn mkv(v: u32) -> T {
        T::mk(v, false)
    }
    fn note_key(&mut self, k: u32) {
        if T::ZST {
            self.next_key = 1;
        } else if k >= self.next_key {
            self.next_key = k + 1;
        }
    }
    pub fn dump(&self) -> Dump {
        harness(|| self.m.verif_dump(|k, v| ((k.id() as u64) << 8) | v.id() as u64))
    }
    pub fn stats(&self) -> Stats {
        self.m.verif_stats()
    }

    /// Ids of keys in the old table (in bucket order).
    pub fn old_ids(&self, d: &Dump) -> Vec<u32> {
        d.old.as_ref().map_or(vec![], |o| o.elems.iter().filter(|&&e| e != u64::MAX).map(|e| (e >> 8) as u32).collect())
    }

    pub fn classes(&self) -> Classes {
        let d = self.dump();
        let mut c = Classes { new: if T::ZST { 0 } else { self.next_key }, ..Default::default() };
        if !T::ZST {
            c.reuse = (0..self.next_key).find(|k| !self.r.contains_key(k));
        } else if self.r.is_empty() {
            c.reuse = None;
        }
        let main: Vec<u32> = d.main.elems.iter().filter(|&&e| e != u64::MAX).map(|e| (e >> 8) as u32).collect();
        c.main_a = main.first().copied();
        c.main_b = main.last().copied();
        if let (Some(o), Some(y)) = (&d.old, &d.cursor_yields) {
            let id = |i: usize| (o.elems[i] >> 8) as u32;
            if let Some(&first) = y.first() {
                c.old_next = Some(id(first));
                c.old_same = y.iter().skip(1).find(|&&i| i / 16 == first / 16).map(|&i| id(i));
                c.old_beyond = y.iter().find(|&&i| i / 16 > first / 16).map(|&i| id(i));
                c.old_last = y.last().map(|&i| id(i));
            }
        }
        c
    }

    /// Coverage class of the current state.
    pub fn phase(&self) -> u8 {
        let s = self.m.verif_stats();
        match s.old {
            None => 0,
            Some((0, _, _)) => 3,
            Some((l, b, _)) if (l + 8) * 8 >= b * 7 => 1, // nearly untouched
            Some(_) => 2,
        }
    }

    pub fn key128(&self) -> u128 {
        let d = self.dump();
        let mut h = H128::new();
        hash_dump(&mut h, &d);
        h.u64(self.next_key as u64);
        h.u64(self.cfg.hk as u64);
        h.u64(self.m.hasher().seed);
        h.u64(self.leaky as u64);
        h.u64(self.deadline.map_or(u64::MAX, |d| d as u64));
        h.u64(self.lazy_empty_ok as u64);
        h.u64(self.model_on as u64);
        h.finish()
    }

    /// Digest of the contents only (len and the sorted key-value pairs; not the capacity).
    pub fn contents_digest(&self) -> u64 {
        let mut h = H128::new();
        h.u64(self.m.len() as u64);
        let mut v: Vec<(u32, u32)> = self.m.iter().map(|(k, v)| (k.id(), v.id())).collect();
        v.sort();
        for (k, x) in v {
            h.u64(((k as u64) << 32) | x as u64);
        }
        h.finish64()
    }

    /// Digest of the public observables of the state.
    pub fn obs_state(&self) -> u64 {
        let mut h = H128::new();
        h.u64(self.m.len() as u64);
        h.u64(self.m.capacity() as u64);
        let mut v: Vec<(u32, u32)> = self.m.iter().map(|(k, v)| (k.id(), v.id())).collect();
        v.sort();
        for (k, x) in v {
            h.u64(((k as u64) << 32) | x as u64);
        }
        h.finish64()
    }

    // -----------------------------------------------------------------------------------------
    pub fn audit(&mut self, full: bool) -> VResult<()> {
        if !self.model_on {
            return self.safety_audit();
        }
        let m = &self.m;
        vcheck_eq!("len", m.len(), self.r.len());
        vcheck_eq!("is_empty", m.is_empty(), self.r.is_empty());
        if m.capacity() < m.len() {
            vbail!("audit", "capacity {} < len {}", m.capacity(), m.len());
        }
        if let Some(f) = elem::ledger_fault() {
            vbail!("ledger", "{}", f);
        }
        if !full {
            return Ok(());
        }
        let mut got: Vec<(u32, u32)> = harness(|| m.iter().map(|(k, v)| (k.id(), v.id())).collect());
        got.sort();
        let want: Vec<(u32, u32)> = harness(|| self.r.iter().map(|(&k, &v)| (k, v)).collect());
        if got != want {
            vbail!("audit", "contents differ: iter gives {:?}, reference {:?}", got, want);
        }
        for (i, (&k, &v)) in self.r.iter().enumerate() {
            if i % 4096 == 4095 {
                // a full audit of a very large map is progress, not a hang
                crate::engine::PROGRESS.fetch_add(1, std::sync::atomic::Ordering::Relaxed);
            }
            let kk = harness(|| Self::mkk(k));
            let g = m.get(&kk).map(|x| x.id());
            harness(|| drop(kk));
            if g != Some(v) {
                vbail!("audit", "get({}) = {:?}, reference {:?}", k, g, Some(v));
            }
        }
        if !T::ZST {
            for k in [self.next_key, self.next_key + 1] {
                let kk = harness(|| Self::mkk(k));
                let g = m.get(&kk).map(|x| x.id());
                harness(|| drop(kk));
                if g.is_some() {
                    vbail!("audit", "get(absent {}) = {:?}", k, g);
                }
            }
        }
        if T::TRACKED {
            // every stored object is live and distinct
            let mut objs: Vec<u64> = harness(|| m.iter().flat_map(|(k, v)| [k.obj(), v.obj()]).collect());
            objs.sort();
            for w in objs.windows(2) {
                if w[0] == w[1] {
                    vbail!("ledger", "object {} stored twice", w[0]);
                }
            }
            for &o in &objs {
                if !elem::ledger_is_live(o) {
                    vbail!("ledger", "stored object {} is not live", o);
                }
            }
        }
        if let Some(f) = elem::ledger_fault() {
            vbail!("ledger", "{}", f);
        }
        if self.cfg.flags.cursor {
            self.check_cursor()?;
        }
        if self.cfg.flags.c03 {
            self.check_tables()?;
        }
        Ok(())
    }

    /// After a deliberate logic error: memory safety only.
    fn safety_audit(&mut self) -> VResult<()> {
        if let Some(f) = elem::ledger_fault() {
            vbail!("ledger", "{}", f);
        }
        let n = harness(|| self.m.iter().map(|(k, v)| (k.id(), v.id())).count());
        if n != self.m.len() {
            vbail!("audit", "after a logic error: len() = {} but iter() yields {} entries", self.m.len(), n);
        }
        if T::TRACKED {
            let mut objs: Vec<u64> = harness(|| self.m.iter().flat_map(|(k, v)| [k.obj(), v.obj()]).collect());
            objs.sort();
            for w in objs.windows(2) {
                if w[0] == w[1] {
                    vbail!("ledger", "object {} stored twice", w[0]);
                }
            }
        }
        if let Some(f) = elem::ledger_fault() {
            vbail!("ledger", "{}", f);
        }
        self.check_cursor()
    }

    /// C05: the cached iterator agrees exactly with the old table's contents.
    pub fn check_cursor(&self) -> VResult<()> {
        let s = self.m.verif_stats();
        if let Some((len, _, rem)) = s.old {
            if len != rem {
                vbail!("cursor", "cached iterator expects {} elements, old table holds {}", rem, len);
            }
            let d = self.dump();
            let o = d.old.as_ref().unwrap();
            let full: BTreeSet<usize> = (0..o.buckets).filter(|&i| o.ctrl[i] & 0x80 == 0).collect();
            let y: BTreeSet<usize> = d.cursor_yields.clone().unwrap_or_default().into_iter().collect();
            if full != y || d.cursor_yields.as_ref().map_or(0, |v| v.len()) != y.len() {
                vbail!("cursor", "cached iterator would yield buckets {:?}, full old buckets are {:?}", d.cursor_yields, full);
            }
        }
        Ok(())
    }

    /// C03: never more than two backing tables (allocator's view).
    pub fn check_tables(&self) -> VResult<()> {
        if self.leaky {
            return Ok(()); // a forgotten iterator keeps (leaks) a table: the statement's exception
        }
        let s = self.m.verif_stats();
        let live = alloc::live_tables();
        let allowed = if s.old.is_some() { 2 } else { 1 };
        if live > allowed {
            vbail!("monitor", "{} live table allocations, {} bytes (old table {})", live, alloc::live_bytes(), if s.old.is_some() { "present" } else { "absent" });
        }
        Ok(())
    }

    // -----------------------------------------------------------------------------------------
    pub fn apply(&mut self, op: Op) -> VResult<u64> {
        if !self.model_on {
            // results are unspecified after a logic error (they may even be panics); only safety counts
            self.st = None;
            self.ops_done += 1;
            let _ = catch(|| self.do_op(op));
            if let Some(f) = elem::ledger_fault() {
                vbail!("ledger", "{}", f);
            }
            // best-effort re-synchronisation so that later ops are resolved on something sensible
            self.r = harness(|| self.m.iter().map(|(k, v)| (k.id(), v.id())).collect());
            if let Some(&mx) = self.r.keys().max() {
                self.note_key(mx);
            }
            self.leaky = true;
            return Ok(0);
        }
        self.st = None;
        self.ops_done += 1;
        let pre = if self.cfg.flags.c02 || self.cfg.flags.c03 { Some(self.pre_info(op)) } else { None };
        // key identity: like std's map, no call other than the key-replacing entry methods swaps the
        // stored key object of an element that stays in the map (observable when Eq is coarser than identity)
        // (only calls that hand the map a key which may equal a stored one can do that)
        let hands_over_equal_key = match op.k {
            OpK::Insert | OpK::EntryChain | OpK::RawChain => self.r.contains_key(&T::norm(op.key)),
            OpK::ExtendOverlap | OpK::ExtendRef => true,
            _ => false,
        };
        let pre_keys: Option<Vec<(u32, u64)>> = if T::IDENT && !self.cfg.flags.cheap && hands_over_equal_key { Some(harness(|| self.m.iter().map(|(k, _)| (k.id(), k.obj())).collect())) } else { None };
        let res = catch(|| self.do_op(op));
        let obs = match res {
            Ok(Ok(o)) => o,
            Ok(Err(v)) => return Err(v),
            Err(msg) => return Err(Viol::new("panic", msg)),
        };
        if let Some(f) = elem::ledger_fault() {
            vbail!("ledger", "{}", f);
        }
        if let Some(pre_keys) = pre_keys {
            let post: Vec<(u32, u64)> = harness(|| {
                let mut v: Vec<(u32, u64)> = self.m.iter().map(|(k, _)| (k.id(), k.obj())).collect();
                v.sort_unstable();
                v
            });
            let own_may_change = match op.k {
                OpK::EntryChain => chain::may_replace_key(op.arg),
                OpK::RawChain => chain::may_replace_key(op.arg >> 2),
                _ => false,
            };
            let mut bad = None;
            for &(id, obj) in &pre_keys {
                if let Ok(i) = post.binary_search_by_key(&id, |e| e.0) {
                    let o2 = post[i].1;
                    if o2 != obj && !(own_may_change && id == T::norm(op.key)) {
                        bad = Some((id, obj, o2));
                        break;
                    }
                }
            }
            harness(|| drop(post));
            harness(|| drop(pre_keys));
            if let Some((id, a, b)) = bad {
                vbail!("mismatch", "{} replaced the stored key object of key {} ({} -> {}); a map keeps the key it already has", op, id, a, b);
            }
        }
        if let Some(pre) = pre {
            self.monitors(op, &pre)?;
        }
        if alloc::overflowed() {
            vbail!("machinery", "allocation live-set overflow");
        }
        Ok(obs)
    }

    /// Run one op without the post-call monitors, reporting a panic separately (fault injection).
    pub fn apply_faulty(&mut self, op: Op) -> Result<VResult<u64>, String> {
        self.st = None;
        self.ops_done += 1;
        catch(|| self.do_op(op))
    }

    // -----------------------------------------------------------------------------------------
    fn do_op(&mut self, op: Op) -> VResult<u64> {
        let k = op.key;
        let lk = Self::lk(k);
        let mut obs = H128::new();
        obs.u64(op.k as u64);
        match op.k {
            OpK::Get => {
                let kk = Self::mkk(k);
                let g = self.call(|m| m.get(&kk).map(|v| v.id()));
                vcheck_eq!("get", g, self.r.get(&lk).copied());
                obs.u64(g.map_or(99, |x| x as u64));
            }
            OpK::GetMut => {
                let kk = Self::mkk(k);
                let v = nv(&self.r, lk);
                let g = self.call(|m| {
                    m.get_mut(&kk).map(|x| {
                        let o = x.id();
                        x.set(T::norm(v));
                        o
                    })
                });
                vcheck_eq!("get_mut", g, self.r.get(&lk).copied());
                if let Some(x) = self.r.get_mut(&lk) {
                    *x = T::norm(v);
                }
                obs.u64(g.map_or(99, |x| x as u64));
            }
            OpK::GetKeyValue => {
                let kk = Self::mkk(k);
                let g = self.call(|m| m.get_key_value(&kk).map(|(a, b)| (a.id(), b.id())));
                vcheck_eq!("get_key_value", g, self.r.get(&lk).map(|&v| (lk, v)));
                obs.u64(g.map_or(99, |x| x.1 as u64));
            }
            OpK::GetKeyValueMut => {
                let kk = Self::mkk(k);
                let v = nv(&self.r, lk);
                let g = self.call(|m| {
                    m.get_key_value_mut(&kk).map(|(a, x)| {
                        let o = (a.id(), x.id());
                        x.set(T::norm(v));
                        o
                    })
                });
                vcheck_eq!("get_key_value_mut", g, self.r.get(&lk).map(|&v| (lk, v)));
                if let Some(x) = self.r.get_mut(&lk) {
                    *x = T::norm(v);
                }
                obs.u64(g.map_or(99, |x| x.1 as u64));
            }
            OpK::ContainsKey => {
                let kk = Self::mkk(k);
                let g = self.call(|m| m.contains_key(&kk));
                vcheck_eq!("contains_key", g, self.r.contains_key(&lk));
                obs.u64(g as u64);
            }
            OpK::Index => {
                let kk = Self::mkk(k);
                let g = catch(|| self.call(|m| m[&kk].id()));
                if let Err(p) = &g {
                    if p.starts_with(hasher::FUSE_MSG) {
                        panic!("{}", p); // an injected fault, not the documented panic
                    }
                }
                match (&g, self.r.get(&lk)) {
                    (Ok(a), Some(b)) if a == b => {}
                    (Err(_), None) => {}
                    _ => vbail!("mismatch", "index[{}] gives {:?}, reference {:?}", k, g, self.r.get(&lk)),
                }
                obs.u64(g.map_or(99, |x| x as u64));
            }
            OpK::RawGet => {
                let kk = Self::mkk(k);
                let h = self.m.hasher().hash_of(if T::ZST { 0 } else { k as u64 });
                let b = op.arg;
                let g = self.call(|m| {
                    let e = m.raw_entry();
                    match b {
                        0 => e.from_key(&kk),
                        1 => e.from_key_hashed_nocheck(h, &kk),
                        2 => e.from_hash(h, |q| q.id() == lk),
                        _ => {
                            let mut asked = false;
                            e.from_hash(h, move |q| {
                                if q.id() == lk && !asked {
                                    asked = true;
                                    true
                                } else {
                                    false
                                }
                            })
                        }
                    }
                    .map(|(a, b)| (a.id(), b.id()))
                });
                vcheck_eq!("raw_entry lookup", g, self.r.get(&lk).map(|&v| (lk, v)));
                obs.u64(g.map_or(99, |x| x.1 as u64));
            }
            OpK::Insert => {
                let v = nv(&self.r, lk);
                let (kk, vv) = (Self::mkk(k), Self::mkv(v));
                let g = self.call(|m| m.insert(kk, vv)).map(|x| x.id());
                vcheck_eq!("insert", g, self.r.insert(lk, T::norm(v)));
                self.note_key(k);
                obs.u64(g.map_or(99, |x| x as u64));
            }
            OpK::Remove => {
                let kk = Self::mkk(k);
                let g = self.call(|m| m.remove(&kk)).map(|x| x.id());
                vcheck_eq!("remove", g, self.r.remove(&lk));
                obs.u64(g.map_or(99, |x| x as u64));
            }
            OpK::RemoveEntry => {
                let kk = Self::mkk(k);
                let g = self.call(|m| m.remove_entry(&kk)).map(|(a, b)| (a.id(), b.id()));
                vcheck_eq!("remove_entry", g, self.r.remove(&lk).map(|v| (lk, v)));
                obs.u64(g.map_or(99, |x| x.1 as u64));
            }
            OpK::EntryChain | OpK::RawChain => {
                let raw = op.k == OpK::RawChain;
                let arg = op.arg;
                let r = &mut self.r;
                let s0 = self.m.verif_stats();
                let c0 = hasher::counts()[0];
                hasher::hlog_mark();
                let a0 = alloc::allocs();
                let m = &mut self.m;
                let res = window(|| chain::run_entry_chain::<T, T>(m, r, k, arg, raw));
                self.st = Some(CallStats { s0, s1: self.m.verif_stats(), hashes: hasher::counts()[0] - c0, allocs: alloc::allocs() - a0, calls: 1 });
                let info = res?;
                self.chain_info = info;
                obs.u64(info.obs);
                if self.r.contains_key(&lk) {
                    self.note_key(k);
                }
            }
            OpK::IterMutWrite | OpK::ValuesMutWrite => {
                let vm = op.k == OpK::ValuesMutWrite;
                let n = self.call(|m| {
                    let mut n = 0usize;
                    if vm {
                        for v in m.values_mut() {
                            let x = v.id();
                            v.set((x + 1) % VMOD);
                            n += 1;
                        }
                    } else {
                        for (_, v) in m.iter_mut() {
                            let x = v.id();
                            v.set((x + 1) % VMOD);
                            n += 1;
                        }
                    }
                    n
                });
                vcheck_eq!("iter_mut count", n, self.r.len());
                for v in self.r.values_mut() {
                    *v = T::norm((*v + 1) % VMOD);
                }
            }
            OpK::ExtendFresh | OpK::ExtendOverlap => {
                let n = op.arg as u32;
                let start = if op.k == OpK::ExtendFresh { self.next_key } else { k };
                let items: Vec<(u32, u32)> = (start..start + n).map(|q| (q, nv(&self.r, Self::lk(q)))).collect();
                // an item list with a duplicate key at the end (keys may show multiple times)
                let mut items2 = items.clone();
                if op.k == OpK::ExtendOverlap && n > 0 {
                    items2.push((start, (items[0].1 + 1) % VMOD));
                }
                let elems: Vec<(T, T)> = items2.iter().map(|&(a, b)| (Self::mkk(a), Self::mkv(b))).collect();
                if op.k == OpK::ExtendOverlap && n % 2 == 1 {
                    // a source that under-reports its length (lower bound 0): everything must still go in
                    self.call(|m| m.extend(elems.into_iter().filter(|_| true)));
                } else {
                    self.call(|m| m.extend(elems));
                }
                for &(a, b) in &items2 {
                    self.r.insert(Self::lk(a), T::norm(b));
                    self.note_key(a);
                }
            }
            OpK::ExtendRef => {
                let n = (op.arg & 0xFF) as u32;
                elem::EXT_VARIANT.with(|c| c.set((op.arg >> 8) as u8));
                let items: Vec<(u32, u32)> = (k..k + n).map(|q| (q, nv(&self.r, Self::lk(q)))).collect();
                let done = self.call(|m| T::extend_ref(m, &items));
                if done {
                    for &(a, b) in &items {
                        self.r.insert(Self::lk(a), T::norm(b));
                        self.note_key(a);
                    }
                }
            }
            OpK::ExtendHint => {
                // size_hint is only a hint: a wrong one may cost a (documented) capacity-overflow
                // panic, never anything else, and never differently per build profile
                // selectors 4..6: an iterator that claims an *exact* length (lower == upper) that is too small -
                // still only a hint: all 12 items must go in, with nothing worse than for an honest source
                let sel = (op.arg & 7) as usize;
                let (hint, upper) = if sel < 4 { ([usize::MAX, usize::MAX - 1, isize::MAX as usize, 1usize << 62][sel], None) } else { ([0usize, 1, 3][(sel - 4).min(2)], Some([0usize, 1, 3][(sel - 4).min(2)])) };
                let ids: Vec<u32> = if T::ZST {
                    vec![0]
                } else if sel < 4 {
                    vec![self.next_key, self.next_key + 1]
                } else {
                    (self.next_key..self.next_key + 12).collect()
                };
                let before = self.contents_digest();
                let elems: Vec<(T, T)> = ids.iter().map(|&q| (Self::mkk(q), Self::mkv(0))).collect();
                let it = HintIter { inner: elems.into_iter(), hint, upper };
                let r = catch(|| self.call(|m| m.extend(it)));
                match r {
                    Ok(()) => {
                        for &q in &ids {
                            self.r.entry(Self::lk(q)).or_insert(0);
                            self.note_key(q);
                        }
                        obs.u64(1);
                    }
                    Err(p) => {
                        if p.starts_with(hasher::FUSE_MSG) {
                            panic!("{}", p);
                        }
                        if !p.to_lowercase().contains("capacity overflow") {
                            vbail!("panic", "extend with size_hint lower bound {:#x}: {}", hint, p);
                        }
                        if self.contents_digest() != before {
                            vbail!("contract", "extend panicked with a capacity overflow but changed the contents");
                        }
                        obs.u64(2);
                    }
                }
            }
            OpK::FromIter => {
                let items: Vec<(T, T)> = self.r.iter().map(|(&a, &b)| (Self::mkk(a), Self::mkv(b))).collect();
                let m2 = window(|| items.into_iter().collect::<M<T, T>>());
                let old = std::mem::replace(&mut self.m, m2);
                drop(old);
                self.deadline = None;
                self.lazy_empty_ok = false;
                self.st = None;
            }
            OpK::Clear => {
                self.call(|m| m.clear());
                self.r.clear();
            }
            OpK::Retain => self.op_retain(op, &mut obs)?,
            OpK::DrainFilter => self.op_drain_filter(op, &mut obs)?,
            OpK::Drain => self.op_drain(op, &mut obs)?,
            OpK::IntoIter => self.op_into_iter(op, &mut obs)?,
            OpK::Reserve | OpK::TryReserve => self.op_reserve(op, &mut obs)?,
            OpK::ShrinkTo | OpK::ShrinkToFit => {
                let before = self.m.capacity();
                let b0 = self.m.verif_stats();
                let arg = op.arg as usize;
                if op.k == OpK::ShrinkTo {
                    self.call(|m| m.shrink_to(arg));
                } else {
                    self.call(|m| m.shrink_to_fit());
                }
                let after = self.m.capacity();
                let b1 = self.m.verif_stats();
                if self.cfg.flags.c10 {
                    let m_arg = if op.k == OpK::ShrinkTo { arg } else { 0 };
                    let floor = usize::max(self.m.len(), usize::min(m_arg, before));
                    if after < floor {
                        vbail!("contract", "{} leaves capacity {} < max(len {}, min(m {}, previous capacity {}))", op, after, self.m.len(), m_arg, before);
                    }
                    if b1.main_buckets > b0.main_buckets {
                        vbail!("contract", "{} enlarged the table: {} -> {} buckets", op, b0.main_buckets, b1.main_buckets);
                    }
                }
                obs.u64(after as u64);
            }
            OpK::WithCapacity => {
                if self.ops_done != 1 || !self.r.is_empty() {
                    vbail!("machinery", "WithCapacity is only valid as the first op");
                }
                let n = op.arg as usize;
                let (hk, seed) = (self.cfg.hk, self.cfg.seed);
                let m2 = window(|| M::<T, T>::with_capacity_and_hasher(n, HB::new(hk, seed)));
                self.m = m2;
                if self.m.capacity() < n {
                    vbail!("contract", "with_capacity({}) gives capacity {}", n, self.m.capacity());
                }
                // the constructors of the default hasher type (`new`, `with_capacity`, `Default`), maps and sets:
                // same capacity as the explicit-hasher constructor, nothing allocated for an empty one, and
                // (whatever the random hasher state) the first min(n, 64) insertions fit without reallocation
                {
                    let cap = self.m.capacity();
                    let a0 = alloc::allocs();
                    let e1 = window(griddle::HashMap::<T, T>::new);
                    let e2 = window(griddle::HashSet::<T>::new);
                    let e3: griddle::HashMap<T, T> = window(Default::default);
                    let e4: griddle::HashSet<T> = window(Default::default);
                    if alloc::allocs() != a0 || e1.capacity() != 0 || e2.capacity() != 0 || e3.capacity() != 0 || e4.capacity() != 0 || !e1.is_empty() || !e2.is_empty() {
                        vbail!("contract", "new() / default() allocate or report capacity {} {} {} {}", e1.capacity(), e2.capacity(), e3.capacity(), e4.capacity());
                    }
                    drop((e1, e2, e3, e4));
                    let mut dm = window(|| griddle::HashMap::<T, T>::with_capacity(n));
                    let mut ds = window(|| griddle::HashSet::<T>::with_capacity(n));
                    if dm.capacity() != cap || ds.capacity() != cap {
                        vbail!("contract", "with_capacity({}): map {} / set {} but with_capacity_and_hasher gives {}", n, dm.capacity(), ds.capacity(), cap);
                    }
                    let k = if T::ZST { n.min(1) } else { n.min(64) };
                    let a1 = alloc::allocs();
                    window(|| {
                        for i in 0..k as u32 {
                            dm.insert(harness(|| T::mk(i, true)), harness(|| T::mk(i % 3, false)));
                            ds.insert(harness(|| T::mk(i, true)));
                        }
                    });
                    if alloc::allocs() != a1 || dm.len() != k || ds.len() != k || dm.capacity() != cap || ds.capacity() != cap {
                        vbail!("contract", "with_capacity({}) (default hasher): {} insertions allocated {} time(s), len {} / {}, capacity {} / {}", n, k, alloc::allocs() - a1, dm.len(), ds.len(), dm.capacity(), ds.capacity());
                    }
                    for i in 0..k as u32 {
                        let kk = harness(|| T::mk(i, true));
                        let ok = dm.get(&kk).map(|v| v.id()) == Some(T::norm(i % 3)) && ds.contains(&kk);
                        harness(|| drop(kk));
                        if !ok {
                            vbail!("mismatch", "with_capacity({}) (default hasher): element {} is not found", n, i);
                        }
                    }
                    window(|| drop((dm, ds)));
                }
                // n insertions without reallocation
                if n <= 4096 {
                    self.fill(n, "with_capacity")?;
                }
                obs.u64(self.m.capacity() as u64);
            }
            OpK::FillToCap => {
                let n = self.m.capacity() - self.m.len();
                let len0 = self.r.len();
                self.fill(n, "head-room")?;
                // (a zero-sized key type has a single value: there may be no unseen key to insert)
                if self.r.len() > len0 && self.m.verif_stats().old.is_some() {
                    vbail!("contract", "after inserting capacity()-len() = {} new keys a resize is still pending", n);
                }
                obs.u64(n as u64);
            }
            OpK::CloneReplace => {
                let m2 = self.call(|m| m.clone());
                // equal & source untouched are checked in C11's pair world; here the clone replaces the map
                let old = std::mem::replace(&mut self.m, m2);
                drop(old);
                self.deadline = None;
                self.lazy_empty_ok = false;
                self.st = None;
            }
            OpK::CloneFromInto => {
                // destination: a map in a shape chosen by arg, with a different hasher seed
                let shape = op.arg;
                let (hk, seed) = (self.cfg.hk, self.cfg.seed);
                let mut d = window(|| M::<T, T>::with_hasher(HB::new(hk, seed.wrapping_add(77))));
                let nd = match shape {
                    0 => 0,
                    1 => 3,
                    2 => 15, // split
                    3 => 40,
                    4 => 22, // then emptied by retain: no elements, tombstones, lingering old table
                    5 => 15, // then emptied key by key
                    6 => 31, // shrunk mid-resize, then the main table emptied by retain (tombstones) with one old element left
                    _ => 29, // reserve mid-resize (all leftovers carried, new resize started), then the main table emptied
                };
                for q in 0..nd {
                    let (a, b) = (Self::mkk(1000 + q), Self::mkv(q % VMOD));
                    window(|| d.insert(a, b));
                }
                if shape == 4 {
                    window(|| d.retain(|_, _| false));
                }
                if shape == 5 {
                    for q in 0..nd {
                        let a = Self::mkk(1000 + q);
                        window(|| d.remove(&a));
                    }
                }
                if shape == 6 || shape == 7 {
                    let old_ids = |d: &M<T, T>| -> Vec<u32> {
                        let dd = harness(|| d.verif_dump(|k, _| k.id() as u64));
                        dd.old.map_or(vec![], |o| o.elems.iter().filter(|&&e| e != u64::MAX).map(|&e| e as u32).collect())
                    };
                    if shape == 7 {
                        window(|| d.reserve(40));
                    }
                    let old = old_ids(&d);
                    let survivor = old.last().copied();
                    // drop all old-table elements but one, and one main-table element
                    let victim_main = harness(|| d.keys().map(|k| k.id()).find(|k| !old.contains(k)));
                    window(|| d.retain(|k, _| {
                        let id = k.id();
                        (!old.contains(&id) || Some(id) == survivor) && Some(id) != victim_main
                    }));
                    window(|| d.shrink_to_fit());
                    window(|| d.retain(|k, _| Some(k.id()) == survivor));
                }
                let src = &self.m;
                if let Err(msg) = catch(|| window(|| d.clone_from(src))) {
                    // An interrupted clone_from (C07): the destination may hold anything, but it must stay
                    // memory-safe and usable.  Examine it before the panic travels on.
                    self.leaky = true;
                    let verdict = if msg.starts_with(hasher::FUSE_MSG) { Self::interrupted_destination(&mut d, &self.r, nd, src) } else { Ok(()) };
                    std::mem::forget(d);
                    verdict?;
                    panic!("{}", msg);
                }
                let old = std::mem::replace(&mut self.m, d);
                drop(old);
                self.deadline = None;
                self.lazy_empty_ok = false;
                self.st = None;
            }
            OpK::IterCheck => self.op_iter_check(op, &mut obs)?,
            OpK::BorrowProbe => {
                let n = crate::borrowcheck::map_probe(&self.r, self.cfg.hk, self.cfg.seed)?;
                obs.u64(n);
            }
            OpK::RawInsertWrongHash => {
                // a logic error that must stay memory-safe: store (k, v) under a hash that is not k's
                let right = self.m.hasher().hash_of(if T::ZST { 0 } else { k as u64 });
                let wrong = match op.arg {
                    0 => 0,
                    1 => self.m.hasher().hash_of(k as u64 + 1),
                    _ => !right,
                };
                let (kk, vv) = (Self::mkk(k), Self::mkv(0));
                self.call(|m| {
                    if let griddle::hash_map::RawEntryMut::Vacant(v) = m.raw_entry_mut().from_hash(wrong, |_| false) {
                        v.insert_hashed_nocheck(wrong, kk, vv);
                    }
                });
                self.note_key(k);
                self.model_on = false;
                self.leaky = true;
                self.st = None;
                self.r = harness(|| self.m.iter().map(|(k, v)| (k.id(), v.id())).collect());
            }
            OpK::SInsert | OpK::SReplace | OpK::SRemove | OpK::STake | OpK::SGet | OpK::SContains | OpK::SGetOrInsert | OpK::SGetOrInsertOwned | OpK::SGetOrInsertWith => {
                vbail!("machinery", "op {} is not a map op", op)
            }
        }
        obs.u64(self.m.len() as u64);
        Ok(obs.finish64())
    }

    /// What must hold for the destination of a `clone_from` that was interrupted by a panic in user code:
    /// whatever it holds, `len()` agrees with iteration, iterated elements are live and found, and later
    /// calls (removing every key it could know, inserting new ones, another `clone_from`) neither panic
    /// nor corrupt the count.
    fn interrupted_destination(d: &mut M<T, T>, src_ref: &BTreeMap<u32, u32>, nd: u32, src: &M<T, T>) -> VResult<()> {
        // (the statement leaves the *contents* of an interrupted destination unspecified - it may even hold
        // elements filed under the source's hasher while it still has its own - so "found by get" is only
        // demanded once a later clone_from has completed)
        let consistent = |d: &M<T, T>, when: &str, strict: bool| -> VResult<()> {
            let got: Vec<(u32, u32)> = harness(|| d.iter().map(|(k, v)| (k.id(), v.id())).collect());
            if let Some(f) = elem::ledger_fault() {
                vbail!("ledger", "destination of an interrupted clone_from, {}: {}", when, f);
            }
            if got.len() != d.len() || d.is_empty() != (d.len() == 0) {
                vbail!("audit", "destination of an interrupted clone_from, {}: len() = {} but iter() yields {} entries", when, d.len(), got.len());
            }
            for &(k, v) in &got {
                let kk = harness(|| Self::mkk(k));
                let g = catch(|| d.get(&kk).map(|x| x.id()));
                harness(|| drop(kk));
                match g {
                    Err(msg) => vbail!("panic", "get({}) on the destination of an interrupted clone_from, {}: {}", k, when, msg),
                    Ok(g) if strict && g != Some(v) => vbail!("audit", "destination of an interrupted clone_from, {}: iterates ({}, {}) but get gives {:?}", when, k, v, g),
                    Ok(_) => {}
                }
            }
            Ok(())
        };
        consistent(d, "right after the panic", false)?;
        // remove every key it may know of (its own former keys and the source's)
        let keys: Vec<u32> = harness(|| src_ref.keys().copied().chain(1000..1000 + nd).collect());
        for k in keys {
            let before = d.len();
            let kk = harness(|| Self::mkk(k));
            let r = catch(|| d.remove(&kk).is_some());
            harness(|| drop(kk));
            match r {
                Err(msg) => vbail!("panic", "remove({}) on the destination of an interrupted clone_from: {}", k, msg),
                Ok(found) => {
                    if d.len() > before || (found && d.len() + 1 != before) || (!found && d.len() != before) {
                        vbail!("audit", "remove({}) on the destination of an interrupted clone_from: found = {}, len {} -> {}", k, found, before, d.len());
                    }
                }
            }
        }
        consistent(d, "after removing every key", false)?;
        let base = d.len();
        for i in 0..20u32 {
            let (a, b) = (harness(|| Self::mkk(5000 + i)), harness(|| Self::mkv(i % VMOD)));
            if let Err(msg) = catch(|| d.insert(a, b)) {
                vbail!("panic", "insert on the destination of an interrupted clone_from: {}", msg);
            }
            if T::ZST {
                break;
            }
        }
        if !T::ZST && d.len() != base + 20 {
            vbail!("audit", "20 insertions into the destination of an interrupted clone_from: len {} -> {}", base, d.len());
        }
        consistent(d, "after inserting again", false)?;
        match catch(|| d.clone_from(src)) {
            Err(msg) => vbail!("panic", "a second clone_from into the same destination: {}", msg),
            Ok(()) => {
                if *d != *src || d.len() != src.len() {
                    vbail!("mismatch", "a second clone_from into the destination of an interrupted one does not yield an equal map");
                }
            }
        }
        consistent(d, "after a second clone_from", true)
    }

    /// Insert `n` never-seen keys: no panic (caller catches), no table allocation, capacity never
    /// decreases.
    fn fill(&mut self, n: usize, what: &str) -> VResult<()> {
        if T::ZST {
            // one possible key: at most one insertion can be a new key
            if n >= 1 && self.r.is_empty() {
                let a0 = alloc::allocs();
                self.call(|m| m.insert(Self::mkk(0), Self::mkv(0)));
                self.r.insert(0, 0);
                self.note_key(0);
                if alloc::allocs() != a0 {
                    vbail!("contract", "{}: insertion within capacity allocated", what);
                }
            }
            return Ok(());
        }
        let mut cap = self.m.capacity();
        for i in 0..n {
            let k = self.next_key;
            let (kk, vv) = (Self::mkk(k), Self::mkv(0));
            let a0 = alloc::allocs();
            let g = self.call(|m| m.insert(kk, vv));
            if g.is_some() {
                vbail!("mismatch", "insert of unseen key {} returned a value", k);
            }
            self.r.insert(k, 0);
            self.note_key(k);
            if alloc::allocs() != a0 {
                vbail!("contract", "{}: insertion {} of {} within capacity allocated a table", what, i + 1, n);
            }
            let c = self.m.capacity();
            if c < cap {
                vbail!("contract", "{}: capacity decreased {} -> {} during insertion {} of {}", what, cap, c, i + 1, n);
            }
            cap = c;
        }
        Ok(())
    }

    // ---- predicates --------------------------------------------------------------------------
    /// The set of present logical keys for which predicate `code` is true.
    fn pred_set(&self, key: u32, code: u64) -> BTreeSet<u32> {
        let kind = code & 0xFFFF;
        let all: Vec<u32> = self.r.keys().copied().collect();
        match kind {
            0 => BTreeSet::new(),
            1 => all.into_iter().collect(),
            2 | 3 => {
                let d = self.dump();
                let old: BTreeSet<u32> = self.old_ids(&d).into_iter().collect();
                if kind == 2 {
                    old
                } else {
                    all.into_iter().filter(|k| !old.contains(k)).collect()
                }
            }
            4 => all.into_iter().filter(|k| k % 2 == 0).collect(),
            5 => all.into_iter().filter(|k| k % 3 == 0).collect(),
            10 => {
                // everything except the old-table elements other than the last one the cursor reaches
                let d = self.dump();
                let old = self.old_ids(&d);
                let last = self.classes().old_last;
                all.into_iter().filter(|k| !old.contains(k) || Some(*k) == last).collect()
            }
            6 => all.into_iter().filter(|&q| q == Self::lk(key)).collect(),
            7 => all.into_iter().filter(|&q| q != Self::lk(key)).collect(),
            8 | 9 => {
                let reps = self.classes().present_reps();
                let mask = code >> 20;
                let chosen: BTreeSet<u32> = reps.iter().enumerate().filter(|(i, _)| mask >> i & 1 == 1).map(|(_, &q)| q).collect();
                if kind == 8 {
                    chosen
                } else {
                    // rest -> true, chosen -> per mask complement
                    let repset: BTreeSet<u32> = reps.into_iter().collect();
                    all.into_iter().filter(|q| !repset.contains(q) || chosen.contains(q)).collect()
                }
            }
            _ => BTreeSet::new(),
        }
    }

    fn op_retain(&mut self, op: Op, obs: &mut H128) -> VResult<()> {
        let keep = self.pred_set(op.key, op.arg);
        let mutate = op.arg >> 16 & 1 == 1;
        let mut log: Vec<(u32, u32)> = Vec::with_capacity(self.r.len() + 1);
        let was_split_nonempty = self.m.verif_stats().old.map_or(false, |o| o.0 > 0);
        self.call(|m| {
            m.retain(|k, v| {
                let (a, b) = (k.id(), v.id());
                let kp = keep.contains(&a);
                hasher::cb_note(a, !kp);
                tick(Cb::Closure);
                harness(|| log.push((a, b)));
                if kp && mutate {
                    v.set((b + 1) % VMOD);
                }
                kp
            })
        });
        // f called exactly once per element, with the element's current value
        let mut l2 = log.clone();
        l2.sort();
        let want: Vec<(u32, u32)> = self.r.iter().map(|(&a, &b)| (a, b)).collect();
        if l2 != want {
            vbail!("mismatch", "retain called its predicate on {:?}, elements were {:?}", l2, want);
        }
        self.r.retain(|a, b| {
            let kp = keep.contains(a);
            if kp && mutate {
                *b = T::norm((*b + 1) % VMOD);
            }
            kp
        });
        let _ = was_split_nonempty;
        obs.u64(self.r.len() as u64);
        Ok(())
    }

    fn op_drain_filter(&mut self, op: Op, obs: &mut H128) -> VResult<()> {
        let (code, mode, prefix) = iter_arg_split(op.arg);
        let take = self.pred_set(op.key, code);
        let mut log: Vec<(u32, u32)> = Vec::with_capacity(self.r.len() + 1);
        let mut yielded: Vec<(u32, u32)> = Vec::with_capacity(self.r.len() + 1);
        let mut counted: Option<usize> = None;
        let before: Vec<(u32, u32)> = self.r.iter().map(|(&a, &b)| (a, b)).collect();
        self.call(|m| {
            let mut it = m.drain_filter(|k, v| {
                let (a, b) = (k.id(), v.id());
                hasher::cb_note(a, take.contains(&a));
                tick(Cb::Closure);
                harness(|| log.push((a, b)));
                take.contains(&a)
            });
            let limit = iter_limit(mode, prefix);
            let mut n = 0;
            while n < limit {
                match it.next() {
                    Some((k, v)) => {
                        harness(|| {
                            yielded.push((k.id(), v.id()));
                            drop((k, v));
                        });
                        n += 1;
                    }
                    None => break,
                }
            }
            if mode == MODE_CONSUME {
                // fused
                for _ in 0..3 {
                    if it.next().is_some() {
                        harness(|| yielded.push((u32::MAX, u32::MAX)));
                    }
                }
            }
            counted = finish_iter(it, mode, prefix, &mut |(k, v)| {
                harness(|| {
                    yielded.push((k.id(), v.id()));
                    drop((k, v));
                })
            });
        });
        // each element handed to the predicate at most once, and only elements of the map
        let mut l2 = log.clone();
        l2.sort();
        for w in l2.windows(2) {
            if w[0].0 == w[1].0 {
                vbail!("mismatch", "drain_filter called its predicate twice on key {}", w[0].0);
            }
        }
        for e in &l2 {
            if before.binary_search(e).is_err() {
                vbail!("mismatch", "drain_filter handed {:?} to the predicate; not an element", e);
            }
        }
        if mode != MODE_FORGET_AT && l2 != before {
            vbail!("mismatch", "drain_filter (run to completion) called its predicate on {:?}, elements were {:?}", l2, before);
        }
        // yielded are exactly matching elements, each once
        let mut y2 = yielded.clone();
        y2.sort();
        for w in y2.windows(2) {
            if w[0].0 == w[1].0 {
                vbail!("mismatch", "drain_filter yielded key {} twice", w[0].0);
            }
        }
        for e in &y2 {
            if !take.contains(&e.0) || before.binary_search(e).is_err() {
                vbail!("mismatch", "drain_filter yielded {:?}, which does not match / is not an element", e);
            }
        }
        match mode {
            MODE_FORGET_AT => {
                // only the yielded ones are removed
                for e in &y2 {
                    self.r.remove(&e.0);
                }
            }
            _ => {
                let want: Vec<(u32, u32)> = before.iter().copied().filter(|e| take.contains(&e.0)).collect();
                if iter_complete(mode) && y2 != want {
                    vbail!("mismatch", "drain_filter yielded {:?}, matching elements were {:?}", y2, want);
                }
                iter_post("drain_filter", mode, prefix, want.len(), yielded.len(), counted)?;
                self.r.retain(|a, _| !take.contains(a));
            }
        }
        obs.u64(y2.len() as u64);
        Ok(())
    }

    fn op_drain(&mut self, op: Op, obs: &mut H128) -> VResult<()> {
        let (_, mode, prefix) = iter_arg_split(op.arg);
        let before: Vec<(u32, u32)> = self.r.iter().map(|(&a, &b)| (a, b)).collect();
        let n0 = before.len();
        let mut yielded: Vec<(u32, u32)> = Vec::with_capacity(n0 + 4);
        let mut counted: Option<usize> = None;
        let mut bad: Option<String> = None;
        let mut dbg: Vec<(String, usize)> = Vec::with_capacity(2);
        self.call(|m| {
            let mut it = m.drain();
            let limit = iter_limit(mode, prefix);
            let mut n = 0;
            while n < limit {
                let (lo, hi) = it.size_hint();
                if (lo != n0 - n || hi != Some(n0 - n) || it.len() != n0 - n) && bad.is_none() {
                    bad = Some(harness(|| format!("drain size_hint {:?} len {} after {} of {}", (lo, hi), it.len(), n, n0)));
                }
                if mode == MODE_CONSUME && !T::ZST && (n == 0 || n == n0 / 2) {
                    // Debug of the iterator lists exactly what is still to come
                    harness(|| dbg.push((format!("{:?}", it), n)));
                }
                match it.next() {
                    Some((k, v)) => {
                        harness(|| {
                            yielded.push((k.id(), v.id()));
                            drop((k, v));
                        });
                        n += 1;
                    }
                    None => break,
                }
            }
            if mode == MODE_CONSUME {
                for _ in 0..3 {
                    if it.next().is_some() {
                        harness(|| yielded.push((u32::MAX, u32::MAX)));
                    }
                }
            }
            counted = finish_iter(it, mode, prefix, &mut |(k, v)| {
                harness(|| {
                    yielded.push((k.id(), v.id()));
                    drop((k, v));
                })
            });
        });
        if let Some(b) = bad {
            vbail!("mismatch", "{}", b);
        }
        for (d, at) in &dbg {
            // same elements (Debug lists them in by-reference iteration order, which may differ)
            let mut rest: Vec<(u32, u32)> = Vec::new();
            for i in *at..yielded.len() {
                if yielded[i].0 != u32::MAX {
                    rest.push(yielded[i]);
                }
            }
            rest.sort();
            let mut shown: Vec<(u32, u32)> = d
                .trim_start_matches('[')
                .trim_end_matches(']')
                .split("), (")
                .filter(|x| !x.is_empty())
                .filter_map(|x| {
                    let x = x.trim_start_matches('(').trim_end_matches(')');
                    let mut it = x.split(", ");
                    Some((it.next()?.parse().ok()?, it.next()?.parse().ok()?))
                })
                .collect();
            shown.sort();
            if shown != rest {
                vbail!("mismatch", "Debug of the iterator after {} items shows {:?} but it then yields {:?}", at, shown, rest);
            }
        }
        let mut y2 = yielded.clone();
        y2.sort();
        for w in y2.windows(2) {
            if w[0].0 == w[1].0 {
                vbail!("mismatch", "drain yielded key {} twice", w[0].0);
            }
        }
        for e in &y2 {
            if before.binary_search(e).is_err() {
                vbail!("mismatch", "drain yielded {:?}; not an element", e);
            }
        }
        if iter_complete(mode) && y2 != before {
            vbail!("mismatch", "drain yielded {:?}, elements were {:?}", y2, before);
        }
        iter_post("drain", mode, prefix, n0, yielded.len(), counted)?;
        if mode == MODE_FORGET_AT {
            // hashbrown's drain parks the table in the iterator; forgetting it leaks the table
            self.leaky = true;
        }
        self.r.clear();
        self.deadline = None;
        obs.u64(y2.len() as u64);
        Ok(())
    }

    fn op_into_iter(&mut self, op: Op, obs: &mut H128) -> VResult<()> {
        let (_, mode, prefix) = iter_arg_split(op.arg);
        let before: Vec<(u32, u32)> = self.r.iter().map(|(&a, &b)| (a, b)).collect();
        let n0 = before.len();
        let (hk, seed) = (self.cfg.hk, self.cfg.seed);
        let fresh = window(|| M::<T, T>::with_hasher(HB::new(hk, seed)));
        let old = std::mem::replace(&mut self.m, fresh);
        let mut yielded: Vec<(u32, u32)> = Vec::with_capacity(n0 + 4);
        let mut counted: Option<usize> = None;
        let mut bad: Option<String> = None;
        let mut dbg: Vec<(String, usize)> = Vec::with_capacity(2);
        window(|| {
            let mut it = old.into_iter();
            let limit = iter_limit(mode, prefix);
            let mut n = 0;
            while n < limit {
                let (lo, hi) = it.size_hint();
                if (lo != n0 - n || hi != Some(n0 - n) || it.len() != n0 - n) && bad.is_none() {
                    bad = Some(harness(|| format!("into_iter size_hint {:?} len {} after {} of {}", (lo, hi), it.len(), n, n0)));
                }
                if mode == MODE_CONSUME && !T::ZST && (n == 0 || n == n0 / 2) {
                    // Debug of the iterator lists exactly what is still to come
                    harness(|| dbg.push((format!("{:?}", it), n)));
                }
                match it.next() {
                    Some((k, v)) => {
                        harness(|| {
                            yielded.push((k.id(), v.id()));
                            drop((k, v));
                        });
                        n += 1;
                    }
                    None => break,
                }
            }
            if mode == MODE_CONSUME {
                for _ in 0..3 {
                    if it.next().is_some() {
                        harness(|| yielded.push((u32::MAX, u32::MAX)));
                    }
                }
            }
            counted = finish_iter(it, mode, prefix, &mut |(k, v)| {
                harness(|| {
                    yielded.push((k.id(), v.id()));
                    drop((k, v));
                })
            });
        });
        if let Some(b) = bad {
            vbail!("mismatch", "{}", b);
        }
        for (d, at) in &dbg {
            // same elements (Debug lists them in by-reference iteration order, which may differ)
            let mut rest: Vec<(u32, u32)> = Vec::new();
            for i in *at..yielded.len() {
                if yielded[i].0 != u32::MAX {
                    rest.push(yielded[i]);
                }
            }
            rest.sort();
            let mut shown: Vec<(u32, u32)> = d
                .trim_start_matches('[')
                .trim_end_matches(']')
                .split("), (")
                .filter(|x| !x.is_empty())
                .filter_map(|x| {
                    let x = x.trim_start_matches('(').trim_end_matches(')');
                    let mut it = x.split(", ");
                    Some((it.next()?.parse().ok()?, it.next()?.parse().ok()?))
                })
                .collect();
            shown.sort();
            if shown != rest {
                vbail!("mismatch", "Debug of the iterator after {} items shows {:?} but it then yields {:?}", at, shown, rest);
            }
        }
        let mut y2 = yielded.clone();
        y2.sort();
        for w in y2.windows(2) {
            if w[0].0 == w[1].0 {
                vbail!("mismatch", "into_iter yielded key {} twice", w[0].0);
            }
        }
        for e in &y2 {
            if before.binary_search(e).is_err() {
                vbail!("mismatch", "into_iter yielded {:?}; not an element", e);
            }
        }
        if iter_complete(mode) && y2 != before {
            vbail!("mismatch", "into_iter yielded {:?}, elements were {:?}", y2, before);
        }
        iter_post("into_iter", mode, prefix, n0, yielded.len(), counted)?;
        if mode == MODE_FORGET_AT {
            self.leaky = true;
        }
        self.r.clear();
        self.deadline = None;
        self.lazy_empty_ok = false;
        obs.u64(y2.len() as u64);
        Ok(())
    }

    fn op_reserve(&mut self, op: Op, obs: &mut H128) -> VResult<()> {
        // key field 1 on a try_reserve op: memory pressure - while the call runs, every allocation larger
        // than the largest table this map owns fails (an environment answer: Err(AllocError) is fine, Ok
        // must be as good as any other Ok)
        let pressure = op.k == OpK::TryReserve && op.key == 1;
        let n = op.arg as usize;
        let len = self.m.len();
        let fallible = op.k == OpK::TryReserve;
        // "Err leaves the contents unchanged": the elements, not the capacity (a failed try_reserve
        // may already have moved the leftovers over, and hashbrown may have reclaimed tombstones)
        let before = self.contents_digest();
        let esz = std::mem::size_of::<(T, T)>().max(1);
        // Outcomes the statement pins down:
        //  must_fail: len + n (plus head-room) overflows usize
        //  must_succeed: small requests
        let total = len.checked_add(n);
        let must_fail = total.is_none();
        let must_succeed = n <= (1 << 24) && !pressure;
        let _ = esz;
        if pressure {
            alloc::fail_above(alloc::live_max_bytes().max(64));
        }
        let outcome: Result<Result<(), String>, String> = if fallible {
            let r = catch(|| self.call(|m| m.try_reserve(n).map_err(|e| format!("{:?}", e))));
            alloc::fail_above(0);
            r
        } else {
            catch(|| self.call(|m| m.reserve(n))).map(Ok)
        };
        if let Err(p) = &outcome {
            if p.starts_with(hasher::FUSE_MSG) {
                panic!("{}", p); // an injected fault, not a capacity panic
            }
        }
        match outcome {
            Ok(Ok(())) => {
                if must_fail {
                    vbail!("contract", "{} returned normally although len {} + n overflows usize (capacity now {})", op, len, self.m.capacity());
                }
                let need = total.unwrap();
                if self.m.capacity() < need {
                    vbail!("contract", "{} returned normally but capacity {} < len {} + n", op, self.m.capacity(), len);
                }
                if pressure {
                    // whatever table was installed under pressure must keep the head-room promise
                    let free = self.m.capacity() - self.m.len();
                    let len0 = self.r.len();
                    self.fill(free, "head-room after try_reserve under memory pressure")?;
                    if self.r.len() > len0 && self.m.verif_stats().old.is_some() {
                        vbail!("contract", "{} under memory pressure: after inserting capacity()-len() = {} new keys a resize is still pending", op, free);
                    }
                }
                obs.u64(1);
            }
            Ok(Err(e)) => {
                // try_reserve -> Err: contents unchanged
                if must_succeed {
                    vbail!("contract", "{} failed with {} for a small request", op, e);
                }
                if self.contents_digest() != before {
                    vbail!("contract", "{} returned Err({}) but changed the contents", op, e);
                }
                obs.u64(2);
            }
            Err(p) => {
                if fallible {
                    vbail!("panic", "{} panicked instead of returning Err: {}", op, p);
                }
                if must_succeed || !p.to_lowercase().contains("capacity overflow") {
                    vbail!("panic", "{}: {}", op, p);
                }
                // documented capacity-overflow panic; the map must still be intact
                if self.m.len() != len {
                    vbail!("contract", "{} panicked ({}) and changed len", op, p);
                }
                obs.u64(3);
            }
        }
        obs.u64(self.m.capacity() as u64);
        Ok(())
    }

    fn op_iter_check(&mut self, op: Op, obs: &mut H128) -> VResult<()> {
        crate::itercheck::map_iter_check(self, op.arg)?;
        obs.u64(self.r.len() as u64);
        Ok(())
    }

    // ---- per-call monitors (C02, C03) ----------------------------------------------------------
    fn pre_info(&self, op: Op) -> PreInfo {
        let lk = Self::lk(op.key);
        let present = self.r.contains_key(&lk);
        let s = self.m.verif_stats();
        let mut in_old = false;
        if !self.cfg.flags.cheap && present && s.old.map_or(false, |o| o.0 > 0) && matches!(op.k, OpK::Insert | OpK::EntryChain | OpK::RawChain | OpK::Remove | OpK::RemoveEntry) {
            let d = self.dump();
            in_old = self.old_ids(&d).contains(&lk);
        }
        PreInfo { present, in_old, len: self.r.len(), s }
    }

    fn monitors(&mut self, op: Op, pre: &PreInfo) -> VResult<()> {
        let st = match self.st {
            Some(s) => s,
            None => return Ok(()),
        };
        let (s0, s1) = (pre.s, st.s1);
        let single = matches!(op.k, OpK::Get | OpK::GetMut | OpK::GetKeyValue | OpK::GetKeyValueMut | OpK::ContainsKey | OpK::Index | OpK::RawGet | OpK::Insert | OpK::Remove | OpK::RemoveEntry | OpK::EntryChain | OpK::RawChain);
        let is_chain = matches!(op.k, OpK::EntryChain | OpK::RawChain);
        // what the op did to its key, from the reference's point of view
        let (inserted, removed) = match op.k {
            OpK::Insert => (!pre.present, false),
            OpK::Remove | OpK::RemoveEntry => (false, pre.present),
            OpK::EntryChain | OpK::RawChain => (self.chain_info.inserted, self.chain_info.removed),
            _ => (false, false),
        };
        // a removal of a key that was present at the start precedes any insertion by the same op
        let in_old = if self.cfg.flags.cheap && matches!(op.k, OpK::Remove | OpK::RemoveEntry) {
            // inferred: the main table kept its length, the old one lost exactly one
            removed && s1.main_len == s0.main_len && s0.old.map_or(0, |o| o.0) == s1.old.map_or(0, |o| o.0) + 1
        } else {
            pre.in_old
        };
        let pre = &PreInfo { present: pre.present, in_old, len: pre.len, s: pre.s };
        let rfo = (removed && pre.present && pre.in_old) as usize;
        let rfm_first = (removed && pre.present && !pre.in_old) as usize;
        // a growth inside the call turns the previous main table into the old one
        let grew = single && s0.old.is_none() && st.allocs >= 1;
        let (l0, m0) = if grew { (s0.main_len - rfm_first, 0) } else { (s0.old.map_or(0, |o| o.0), s0.main_len) };
        let l1 = s1.old.map_or(0, |o| o.0);
        let m1 = s1.main_len;
        let moved = (l0 as isize - l1 as isize - rfo as isize).max(0) as usize;
        let inserted_into_main = single && inserted;
        // chains may contain several inserting calls; the per-call bounds scale with their number
        let ins = if is_chain { self.chain_info.inserts.max(1) as usize } else { 1 };
        if self.cfg.flags.c02 && single && st.calls == 1 {
            // (scale sweeps cannot afford to look where the key lives: an overwrite that carried is
            // taken to have hit the old table; the exact rule is checked by E1/E2 at small sizes)
            let overwrite_old = op.k == OpK::Insert && pre.present && (pre.in_old || (self.cfg.flags.cheap && l0 > l1));
            let arg_hashes = hasher::hash_log_count(if T::ZST { 0 } else { op.key });
            if inserted_into_main || overwrite_old {
                if moved > R * ins {
                    vbail!("monitor", "{} moved {} elements out of the old table (R = {}, {} inserting call(s))", op, moved, R, ins);
                }
                if st.hashes as usize > (R + 1) * ins + 1 {
                    vbail!("monitor", "{} computed {} hashes (bound R+2 = {} per inserting call)", op, st.hashes, R + 2);
                }
                if st.hashes as usize > moved + 1 + ins || arg_hashes > 1 + ins {
                    vbail!("monitor", "{} computed {} hashes for {} moved elements ({} on the added key, {} inserting call(s)); each moved element may be re-hashed once and the added key hashed twice", op, st.hashes, moved, arg_hashes, ins);
                }
                if st.allocs as usize > ins {
                    vbail!("monitor", "{} performed {} table allocations", op, st.allocs);
                }
            } else {
                // lookup / removal / in-place update
                // "hash only the queried key": every hash computed is of the argument key, and there are
                // at most two of them (the bound the statement gives for a key being added)
                if st.hashes > 2 || arg_hashes as u64 != st.hashes {
                    vbail!("monitor", "{} computed {} hashes, {} of them on the queried key (a lookup/removal/update may hash only the queried key)", op, st.hashes, arg_hashes);
                }
                if st.allocs != 0 {
                    vbail!("monitor", "{} allocated {} tables", op, st.allocs);
                }
                if moved != 0 || m1 > m0 {
                    vbail!("monitor", "{} moved elements between tables: old {} -> {}, main {} -> {}", op, l0, l1, m0, m1);
                }
            }
        }
        if self.cfg.flags.c02 && !single && st.calls == 1 {
            match op.k {
                OpK::Reserve | OpK::TryReserve if s0.old.is_none() => {
                    if st.hashes != 0 || st.allocs > 1 {
                        vbail!("monitor", "{} on an unsplit map computed {} hashes / {} allocations", op, st.hashes, st.allocs);
                    }
                }
                OpK::Retain | OpK::DrainFilter | OpK::Drain | OpK::Clear | OpK::IterMutWrite | OpK::ValuesMutWrite => {
                    if st.hashes != 0 || st.allocs != 0 || m1 > m0 {
                        vbail!("monitor", "{} did resize work: {} hashes, {} allocations, main {} -> {}", op, st.hashes, st.allocs, m0, m1);
                    }
                }
                _ => {}
            }
        }
        if self.cfg.flags.c03 && st.calls == 1 {
            let emptied_now = s0.old.map_or(false, |o| o.0 > 0) && s1.old.map_or(false, |o| o.0 == 0);
            if inserted_into_main {
                // progress: min(R, remaining) moved
                let mut want = l0 - rfo.min(l0);
                let rem = want;
                // every inserting call made while the map is split moves min(R, remaining); if the
                // resize started inside this very op, the inserting calls before it moved nothing
                let mut ok = false;
                for i in 0..ins {
                    want -= want.min(R);
                    if (i + 1 == ins || grew) && l1 == want {
                        ok = true;
                    }
                }
                if self.cfg.flags.cheap && is_chain && removed && !ok {
                    // scale sweeps do not look where the removed key lived: allow the other case
                    let mut w2 = l0.saturating_sub(1 - rfo.min(1));
                    for _ in 0..ins {
                        w2 -= w2.min(R);
                    }
                    ok = l1 == w2;
                }
                if !ok {
                    vbail!("monitor", "{} left {} elements in the old table; {} were there and min(R, remaining) must move", op, l1, rem);
                }
                if l1 == 0 && s1.old.is_some() {
                    vbail!("monitor", "{} left an empty old table allocated", op);
                }
                if grew {
                    self.deadline = Some((l1 + R - 1) / R);
                } else if let Some(d) = self.deadline {
                    if d == 0 && s1.old.is_some() {
                        vbail!("monitor", "resize not complete after ceil(L/R) key-adding calls");
                    }
                    self.deadline = Some(d.saturating_sub(1));
                }
                self.lazy_empty_ok = false;
            } else {
                match op.k {
                    OpK::Retain => {
                        if emptied_now {
                            self.lazy_empty_ok = true;
                        }
                    }
                    OpK::EntryChain | OpK::RawChain if emptied_now && Self::chain_has_replace_none(op) => self.lazy_empty_ok = true,
                    OpK::Clear | OpK::Drain => {
                        if s1.old.is_some() {
                            vbail!("monitor", "{} left an old table behind", op);
                        }
                    }
                    _ => {}
                }
                if s1.old.map_or(false, |o| o.0 == 0) && !self.lazy_empty_ok {
                    vbail!("monitor", "{} emptied the old table but did not free it", op);
                }
            }
            if !inserted_into_main && (st.allocs > 0 || !stats_eq_tables(&s0, &s1)) {
                // a capacity call re-shaped the tables: a new resize may have started
                self.deadline = s1.old.map(|o| (o.0 + R - 1) / R);
            }
            if s1.old.is_none() {
                self.deadline = None;
                self.lazy_empty_ok = false;
            }
            self.check_tables()?;
        }
        Ok(())
    }

    fn chain_methods(op: Op) -> Vec<u8> {
        let code = if op.k == OpK::RawChain { op.arg >> 2 } else { op.arg };
        chain::decode(code)
    }
    fn chain_has_replace_none(op: Op) -> bool {
        use chain::*;
        Self::chain_methods(op).iter().any(|&m| matches!(m, O_REPLACE_WITH_NONE | E_AND_REPLACE_NONE | RO_REPLACE_WITH_NONE | RE_AND_REPLACE_NONE))
    }
    /// Drop the world and check the ledger / allocator (C06).
    pub fn finish(self) -> VResult<()> {
        let leaky = self.leaky;
        let MapWorld { m, r, .. } = self;
        drop(r);
        catch(|| drop(m)).map_err(|e| Viol::new("panic", format!("dropping the map: {}", e)))?;
        if let Some(f) = elem::ledger_fault() {
            vbail!("ledger", "{}", f);
        }
        if !leaky {
            if elem::ledger_live() != 0 {
                vbail!("ledger", "{} element objects leaked: {:?}", elem::ledger_live(), elem::ledger_live_ids().iter().take(8).collect::<Vec<_>>());
            }
            if alloc::live_tables() != 0 {
                vbail!("ledger", "{} table allocations leaked ({} bytes)", alloc::live_tables(), alloc::live_bytes());
            }
        }
        Ok(())
    }
}

/// An iterator that lies about its length (allowed: `size_hint` is a hint).
pub struct HintIter<I> {
    pub inner: I,
    pub hint: usize,
    pub upper: Option<usize>,
}
impl<I: Iterator> Iterator for HintIter<I> {
    type Item = I::Item;
    fn next(&mut self) -> Option<I::Item> {
        self.inner.next()
    }
    fn size_hint(&self) -> (usize, Option<usize>) {
        (self.hint, self.upper)
    }
}

pub struct PreInfo {
    pub present: bool,
    pub in_old: bool,
    pub len: usize,
    pub s: Stats,
}

impl<T: El> crate::engine::World for MapWorld<T> {
    fn create(cfg: &Cfg) -> VResult<Self> {
        MapWorld::create(cfg)
    }
    fn apply(&mut self, op: Op) -> VResult<u64> {
        MapWorld::apply(self, op)
    }
    fn audit(&mut self, full: bool) -> VResult<()> {
        MapWorld::audit(self, full)
    }
    fn key128(&self) -> u128 {
        MapWorld::key128(self)
    }
    fn len(&self) -> usize {
        self.r.len()
    }
    fn next_key(&self) -> u32 {
        self.next_key
    }
    fn classes(&self) -> Classes {
        MapWorld::classes(self)
    }
    fn phase(&self) -> u8 {
        MapWorld::phase(self)
    }
    fn obs_state(&self) -> u64 {
        MapWorld::obs_state(self)
    }
    fn default_op(&self) -> Op {
        Op::key(OpK::Insert, if T::ZST { 0 } else { self.next_key })
    }
    fn finish(self) -> VResult<()> {
        MapWorld::finish(self)
    }
    fn discard(self) -> bool {
        let l = self.leaky;
        drop(self);
        l
    }
    fn present(&self) -> Vec<u32> {
        self.r.keys().copied().collect()
    }
    fn capacity(&self) -> usize {
        self.m.capacity()
    }
}
