//! E3: pair worlds.  Two collections A and B, each in any state of a family F (growth-path states
//! and states directly after one shaping deviation), crossed with hasher seeds and key overlap
//! patterns; a per-property oracle is evaluated on every ordered pair.

use crate::alloc::window;
use crate::alpha;
use crate::elem::{self, El};
use crate::engine::{self, reset_exec, CurFile, E1Params, FoundViol, Limits, Outcome, World, PROGRESS};
use crate::hasher::HB;
use crate::mapworld::{Cfg, MapWorld};
use crate::op::*;
use crate::setworld::SetWorld;
use crate::shard::ShardSpec;
use crate::util::{catch, H128};
use crate::{vbail, vcheck_eq};
use std::collections::{BTreeMap, BTreeSet, HashSet};

pub fn build_family<W: World>(cfg: &Cfg, alpha_name: &str, n: usize, cap: usize, out: &mut Outcome, cur: Option<&str>) -> Vec<Vec<Op>> {
    let a = alpha::by_name(alpha_name);
    let lim = Limits { max_states: 5_000_000, max_secs: 120.0, max_viol: 4 };
    let o = engine::run_e1::<W>(cfg, &E1Params { n, d: 1, concrete_layers: 0, collect_family: true, from: 0 }, &*a, &lim, cur, None);
    out.violations.extend(o.violations);
    out.viol_count += o.viol_count;
    let fam = o.family;
    if fam.len() <= cap {
        return fam;
    }
    // deterministic thinning: keep the growth path (first n+1) and an even sample of the rest
    let keep_head = (n + 1).min(fam.len()).min(cap / 2);
    let rest = &fam[keep_head..];
    let want = cap - keep_head;
    let mut v: Vec<Vec<Op>> = fam[..keep_head].to_vec();
    for i in 0..want {
        v.push(rest[i * rest.len() / want].clone());
    }
    v
}

/// States reached from `bases` by composing up to `depth` calls of a shaping alphabet (no growth in
/// between): second operands whose shape needs several different calls to set up (an emptied main
/// table full of tombstones next to a non-empty old one, a table shrunk mid-resize, ...).
pub fn deep_family<W: World>(cfg: &Cfg, bases: &[Vec<Op>], alpha_name: &str, depth: usize, cap: usize, out: &mut Outcome) -> Vec<Vec<Op>> {
    let alpha = alpha::by_name(alpha_name);
    let mut seen: HashSet<u128> = HashSet::new();
    let mut all: Vec<Vec<Op>> = vec![];
    let mut frontier: Vec<Vec<Op>> = bases.to_vec();
    for _ in 0..depth {
        let mut next = vec![];
        for h in &frontier {
            reset_exec();
            let ops = match build::<W>(cfg, h) {
                Ok(w) => {
                    let c = engine::ctx_of(&w, false, 0, 0);
                    let ops = alpha(&c);
                    w.discard();
                    ops
                }
                Err(_) => continue,
            };
            for op in ops {
                reset_exec();
                out.executions += 1;
                out.steps += h.len() as u64 + 1;
                let mut h2 = h.clone();
                h2.push(op);
                match build::<W>(cfg, &h2).and_then(|mut w| match w.audit(true) {
                    Ok(()) => Ok(w),
                    Err(v) => {
                        std::mem::forget(w);
                        Err(v)
                    }
                }) {
                    Ok(w) => {
                        if seen.insert(w.key128()) {
                            next.push(h2.clone());
                            all.push(h2);
                        }
                        w.discard();
                    }
                    Err(v) => {
                        out.viol_count += 1;
                        if out.violations.len() < 6 {
                            out.violations.push(FoundViol { kind: v.kind, msg: v.msg, history: h2, step: 0 });
                        }
                    }
                }
            }
        }
        frontier = next;
    }
    if all.len() > cap {
        let n = all.len();
        all = (0..cap).map(|i| all[i * n / cap].clone()).collect();
    }
    all
}

pub fn rename(h: &[Op], a: u32, b: u32) -> Vec<Op> {
    h.iter().map(|o| Op { k: o.k, key: o.key.wrapping_mul(a).wrapping_add(b), arg: o.arg }).collect()
}

fn build<W: World>(cfg: &Cfg, h: &[Op]) -> VResult<W> {
    let mut w = W::create(cfg)?;
    for &o in h {
        if let Err(v) = w.apply(o) {
            std::mem::forget(w);
            return Err(v);
        }
    }
    Ok(w)
}

/// Drop both worlds, then run the global leak checks once (unless an iterator was forgotten).
fn finish_pair<W: World>(a: W, b: W) -> VResult<()> {
    if a.discard() {
        b.discard();
        if let Some(f) = elem::ledger_fault() {
            vbail!("ledger", "{}", f);
        }
        return Ok(());
    }
    b.finish()
}

/// Overlap patterns for B's keys relative to A's.
pub const RENAMES: [(u32, u32, &str); 4] = [(1, 0, "same keys"), (1, 3, "shifted by 3"), (2, 0, "stride 2"), (1, 100_000, "disjoint")];

type PairFn<W> = dyn Fn(&mut W, &mut W, &ShardSpec, usize) -> VResult<u64>;

fn run_pairs<W: World>(spec: &ShardSpec, cur: Option<&str>, fam_alpha: &str, renames: &[(u32, u32, &str)], seeds: &[(u64, u64)], variants: usize, oracle: &PairFn<W>) -> Outcome {
    let t0 = std::time::Instant::now();
    let mut out = Outcome::default();
    let cfg = spec.cfg();
    let cap: usize = spec.extra.get("fam").and_then(|s| s.parse().ok()).unwrap_or(200);
    let part: usize = spec.extra.get("part").and_then(|s| s.parse().ok()).unwrap_or(0);
    let parts: usize = spec.extra.get("parts").and_then(|s| s.parse().ok()).unwrap_or(1);
    let fam = build_family::<W>(&cfg, fam_alpha, spec.n, cap, &mut out, cur);
    // optional deep second operands: shaping calls composed to depth `deep` from a few growth positions
    let deep: usize = spec.extra.get("deep").and_then(|s| s.parse().ok()).unwrap_or(0);
    let fam_b: Vec<Vec<Op>> = if deep > 0 {
        let ns: Vec<u32> = spec.extra.get("deep_ns").map(|s| s.split(',').filter_map(|x| x.parse().ok()).collect()).unwrap_or_else(|| vec![15, 29, 31]);
        let first_op = fam.iter().find(|h| !h.is_empty()).map(|h| h[0].k).unwrap_or(OpK::Insert);
        let bases: Vec<Vec<Op>> = ns.iter().map(|&n| (0..n).map(|k| Op::key(first_op, k)).collect()).collect();
        let dcap: usize = spec.extra.get("deep_cap").and_then(|s| s.parse().ok()).unwrap_or(3000);
        let shaping = if first_op == OpK::SInsert { "sdeepshape" } else { "deepshape" };
        deep_family::<W>(&cfg, &bases, shaping, deep, dcap, &mut out)
    } else {
        fam.clone()
    };
    let mut curf = CurFile::new(cur);
    out.layers.push((fam.len() as u64, fam_b.len() as u64));
    let mut seen: HashSet<u128> = HashSet::new();
    let mut obs_seen: HashSet<u64> = HashSet::new();
    let mut sigs: HashSet<String> = HashSet::new();
    'all: for (i, ha) in fam.iter().enumerate() {
        if i % parts != part {
            continue;
        }
        for hb0 in fam_b.iter() {
            for &(ra, rb, _) in renames {
                let hb = rename(hb0, ra, rb);
                for &(sa, sb) in seeds {
                    for variant in 0..variants {
                        if t0.elapsed().as_secs_f64() > spec.max_secs {
                            out.capped = Some(format!("time cap {}s", spec.max_secs));
                            break 'all;
                        }
                        let mut joined = ha.clone();
                        joined.push(Op::new(OpK::Clear, u32::MAX, ((sa << 32) | sb) << 8 | variant as u64)); // separator (never executed)
                        joined.extend(hb.iter().copied());
                        curf.put(&joined, None);
                        PROGRESS.fetch_add(1, std::sync::atomic::Ordering::Relaxed);
                        reset_exec();
                        out.executions += 1;
                        let mut ca = cfg.clone();
                        ca.seed = sa;
                        let mut cb = cfg.clone();
                        cb.seed = sb;
                        let res = build::<W>(&ca, ha).and_then(|mut a| match build::<W>(&cb, &hb) {
                            Ok(mut b) => {
                                out.steps += (ha.len() + hb.len()) as u64;
                                let mut k = H128::new();
                                k.u64((a.key128() >> 64) as u64);
                                k.u64(a.key128() as u64);
                                k.u64((b.key128() >> 64) as u64);
                                k.u64(b.key128() as u64);
                                k.u64(variant as u64);
                                if seen.insert(k.finish()) {
                                    out.states += 1;
                                    out.phases[a.phase() as usize & 3] += 1;
                                }
                                out.transitions += 1;
                                let r = catch(|| oracle(&mut a, &mut b, spec, variant));
                                match r {
                                    Ok(Ok(o)) => {
                                        obs_seen.insert(o);
                                        finish_pair(a, b)
                                    }
                                    Ok(Err(v)) => {
                                        std::mem::forget(a);
                                        std::mem::forget(b);
                                        Err(v)
                                    }
                                    Err(p) => {
                                        std::mem::forget(a);
                                        std::mem::forget(b);
                                        Err(Viol::new("panic", p))
                                    }
                                }
                            }
                            Err(v) => {
                                std::mem::forget(a);
                                Err(v)
                            }
                        });
                        if let Err(v) = res {
                            out.viol_count += 1;
                            let sig = engine::sig_of(&v.kind, &v.msg, None);
                            if sigs.insert(sig) && out.violations.len() < 12 {
                                out.violations.push(FoundViol { kind: v.kind, msg: v.msg, history: joined.clone(), step: 0 });
                            }
                        }
                        if out.samples.len() < 3 && out.executions % 997 == 1 {
                            out.samples.push(joined);
                        }
                    }
                }
            }
        }
    }
    out.distinct_obs = obs_seen.len() as u64;
    out.wall_s = t0.elapsed().as_secs_f64();
    out
}

/// Replay one joined pair history (A ops, separator, B ops).
/// A history without a separator comes from building the state family: replay it on one world.
pub fn replay_plain<W: World>(spec: &ShardSpec, h: &[Op]) -> VResult<()> {
    reset_exec();
    let cfg = spec.cfg();
    let mut w = W::create(&cfg)?;
    for &o in h {
        if let Err(v) = w.apply(o).and_then(|_| w.audit(true)) {
            std::mem::forget(w);
            return Err(v);
        }
    }
    w.finish()
}

fn replay_pair<W: World>(spec: &ShardSpec, joined: &[Op], oracle: &PairFn<W>) -> VResult<()> {
    let pos = match joined.iter().position(|o| o.k == OpK::Clear && o.key == u32::MAX) {
        Some(p) => p,
        None => return replay_plain::<W>(spec, joined),
    };
    let (ha, hb) = (&joined[..pos], &joined[pos + 1..]);
    let code = joined[pos].arg;
    let variant = (code & 0xFF) as usize;
    let (sa, sb) = ((code >> 8) >> 32, (code >> 8) & 0xFFFF_FFFF);
    reset_exec();
    let mut ca = spec.cfg();
    ca.seed = sa;
    let mut cb = spec.cfg();
    cb.seed = sb;
    let mut a = build::<W>(&ca, ha)?;
    let mut b = build::<W>(&cb, hb)?;
    match catch(|| oracle(&mut a, &mut b, spec, variant)) {
        Ok(Ok(_)) => finish_pair(a, b),
        Ok(Err(v)) => {
            std::mem::forget(a);
            std::mem::forget(b);
            Err(v)
        }
        Err(p) => {
            std::mem::forget(a);
            std::mem::forget(b);
            Err(Viol::new("panic", p))
        }
    }
}

// ---------------------------------------------------------------------------------------------
// C13: set algebra

fn ids_of<'a, T: El + 'a>(it: impl Iterator<Item = &'a T>, what: &str) -> VResult<Vec<u32>> {
    let mut v: Vec<u32> = it.map(|x| x.id()).collect();
    v.sort();
    for w in v.windows(2) {
        if w[0] == w[1] {
            return Err(Viol::new("mismatch", format!("{} yields element {} twice", what, w[0])));
        }
    }
    Ok(v)
}

/// A set built by an operator must behave as a set holding exactly `want`: lookups of members and
/// non-members, re-insertion of a member (refused), its removal, insertion of a new element.
fn working_set<T: El>(s: &mut griddle::HashSet<T, crate::hasher::HB>, want: &BTreeSet<u32>, probes: &[u32], probe_to: u32, what: &str) -> VResult<()> {
    for &k in probes {
        let kk = T::mk(k, true);
        let (c, g) = (s.contains(&kk), s.get(&kk).map(|x| x.id()));
        let w = want.contains(&T::norm(k));
        if c != w || g.is_some() != w {
            vbail!("mismatch", "{}: contains({}) = {}, get = {:?}, but the element is {}", what, k, c, g, if w { "a member" } else { "not a member" });
        }
    }
    if T::ZST {
        return Ok(());
    }
    if let Some(&k) = want.iter().next_back() {
        if s.insert(T::mk(k, true)) {
            vbail!("mismatch", "{}: insert of member {} returned true (now {} elements, expected {})", what, k, s.len(), want.len());
        }
        if !s.remove(&T::mk(k, true)) || s.len() != want.len() - 1 {
            vbail!("mismatch", "{}: remove({}) found nothing", what, k);
        }
    }
    if !s.insert(T::mk(probe_to + 1, true)) || !s.contains(&T::mk(probe_to + 1, true)) {
        vbail!("mismatch", "{}: inserting a new element into the result does not work", what);
    }
    Ok(())
}

fn c13_oracle<T: El>(a: &mut SetWorld<T>, b: &mut SetWorld<T>, _spec: &ShardSpec, _variant: usize) -> VResult<u64> {
    let ra: BTreeSet<u32> = a.r.keys().copied().collect();
    let rb: BTreeSet<u32> = b.r.keys().copied().collect();
    let (sa, sb) = (&a.s, &b.s);
    let v = |s: BTreeSet<u32>| s.into_iter().collect::<Vec<u32>>();
    vcheck_eq!("union", ids_of(sa.union(sb), "union")?, v(ra.union(&rb).copied().collect()));
    vcheck_eq!("intersection", ids_of(sa.intersection(sb), "intersection")?, v(ra.intersection(&rb).copied().collect()));
    vcheck_eq!("difference", ids_of(sa.difference(sb), "difference")?, v(ra.difference(&rb).copied().collect()));
    vcheck_eq!("symmetric_difference", ids_of(sa.symmetric_difference(sb), "symmetric_difference")?, v(ra.symmetric_difference(&rb).copied().collect()));
    // the same through the provided methods a lazy iterator may override
    let fold_ids = |v: Vec<u32>| {
        let mut v = v;
        v.sort();
        v
    };
    vcheck_eq!("union.fold", fold_ids(sa.union(sb).fold(Vec::new(), |mut v, x| { v.push(x.id()); v })), v(ra.union(&rb).copied().collect()));
    vcheck_eq!("intersection.fold", fold_ids(sa.intersection(sb).fold(Vec::new(), |mut v, x| { v.push(x.id()); v })), v(ra.intersection(&rb).copied().collect()));
    vcheck_eq!("difference.fold", fold_ids(sa.difference(sb).fold(Vec::new(), |mut v, x| { v.push(x.id()); v })), v(ra.difference(&rb).copied().collect()));
    vcheck_eq!("symmetric_difference.fold", fold_ids(sa.symmetric_difference(sb).fold(Vec::new(), |mut v, x| { v.push(x.id()); v })), v(ra.symmetric_difference(&rb).copied().collect()));
    vcheck_eq!("union.count", sa.union(sb).count(), ra.union(&rb).count());
    vcheck_eq!("intersection.count", sa.intersection(sb).count(), ra.intersection(&rb).count());
    vcheck_eq!("difference.count", sa.difference(sb).count(), ra.difference(&rb).count());
    vcheck_eq!("symmetric_difference.count", sa.symmetric_difference(sb).count(), ra.symmetric_difference(&rb).count());
    // ... also from a partly consumed iterator: what count() / fold say must be what a clone still yields
    macro_rules! partly {
        ($mk:expr, $name:expr) => {{
            for adv in [1usize, 2] {
                let mut it = $mk;
                for _ in 0..adv {
                    it.next();
                }
                let rest = it.clone().map(|x| x.id()).collect::<Vec<u32>>().len();
                vcheck_eq!(concat!($name, " count() after next()"), it.clone().count(), rest);
                vcheck_eq!(concat!($name, " fold after next()"), it.fold(0usize, |n, _| n + 1), rest);
            }
            let all = $mk.count();
            vcheck_eq!(concat!($name, ".skip(1).count()"), $mk.skip(1).count(), all.saturating_sub(1));
        }};
    }
    partly!(sa.union(sb), "union");
    partly!(sa.intersection(sb), "intersection");
    partly!(sa.difference(sb), "difference");
    partly!(sa.symmetric_difference(sb), "symmetric_difference");
    vcheck_eq!("union.last", sa.union(sb).last().is_some(), ra.union(&rb).count() > 0);
    vcheck_eq!("difference.nth(1)", sa.difference(sb).nth(1).is_some(), ra.difference(&rb).count() > 1);
    // operator forms build new sets (S: Default, T: Clone): with a default hasher state that differs from
    // both operands', the results must be fully working sets (lookups, re-insertion, removal, ==)
    let (hk, s1, s2) = (a.cfg.hk, a.s.hasher().seed, b.s.hasher().seed);
    crate::hasher::set_default_hb(hk, s1.wrapping_add(s2).wrapping_add(5));
    let probe_to = a.next_key.max(b.next_key) + 2;
    // every element of either operand, and two absent ones
    let probes: Vec<u32> = ra.union(&rb).copied().chain([probe_to, probe_to + 3]).collect();
    let mut u = window(|| sa | sb);
    vcheck_eq!("a | b", ids_of(u.iter(), "a | b")?, v(ra.union(&rb).copied().collect()));
    vcheck_eq!("(a | b).len", u.len(), ra.union(&rb).count());
    working_set(&mut u, &ra.union(&rb).copied().collect(), &probes, probe_to, "a | b")?;
    let mut i = window(|| sa & sb);
    vcheck_eq!("a & b", ids_of(i.iter(), "a & b")?, v(ra.intersection(&rb).copied().collect()));
    working_set(&mut i, &ra.intersection(&rb).copied().collect(), &probes, probe_to, "a & b")?;
    let mut x = window(|| sa ^ sb);
    vcheck_eq!("a ^ b", ids_of(x.iter(), "a ^ b")?, v(ra.symmetric_difference(&rb).copied().collect()));
    working_set(&mut x, &ra.symmetric_difference(&rb).copied().collect(), &probes, probe_to, "a ^ b")?;
    let mut d = window(|| sa - sb);
    vcheck_eq!("a - b", ids_of(d.iter(), "a - b")?, v(ra.difference(&rb).copied().collect()));
    working_set(&mut d, &ra.difference(&rb).copied().collect(), &probes, probe_to, "a - b")?;
    crate::hasher::set_default_hb(hk, s2);
    drop((u, i, x, d));
    vcheck_eq!("is_subset", sa.is_subset(sb), ra.is_subset(&rb));
    vcheck_eq!("is_superset", sa.is_superset(sb), ra.is_superset(&rb));
    vcheck_eq!("is_disjoint", sa.is_disjoint(sb), ra.is_disjoint(&rb));
    vcheck_eq!("==", sa == sb, ra == rb);
    vcheck_eq!("== (reflexive)", sa == sa, true);
    // cloned lazy iterators continue independently
    let mut it = sa.union(sb);
    it.next();
    let c = it.clone();
    let (x1, x2) = (it.count(), c.count());
    vcheck_eq!("union clone count", x1, x2);
    let mut it = sa.intersection(sb);
    it.next();
    let c = it.clone();
    vcheck_eq!("intersection clone count", it.count(), c.count());
    let mut h = H128::new();
    h.u64(ra.len() as u64);
    h.u64(rb.len() as u64);
    h.u64(ra.intersection(&rb).count() as u64);
    Ok(h.finish64())
}

// ---------------------------------------------------------------------------------------------
// C11 for sets (HashSet::clone / clone_from delegate to the map's): same statement, read for sets
fn c11_set_oracle<T: El>(a: &mut SetWorld<T>, b: &mut SetWorld<T>, _spec: &ShardSpec, variant: usize) -> VResult<u64> {
    let want: Vec<u32> = a.r.keys().copied().collect();
    let wset: BTreeSet<u32> = want.iter().copied().collect();
    let probes: Vec<u32> = a.r.keys().chain(b.r.keys()).copied().chain([a.next_key.max(b.next_key) + 2]).collect();
    let probe_to = a.next_key.max(b.next_key) + 4;
    if variant == 0 {
        let mut c = window(|| a.s.clone());
        vcheck_eq!("set clone contents", ids_of(c.iter(), "set clone")?, want.clone());
        vcheck_eq!("set clone == source", c == a.s && a.s == c, true);
        if c.hasher().seed != a.s.hasher().seed || c.hasher().kind != a.s.hasher().kind {
            vbail!("mismatch", "clone() of a set has another hasher state than its source");
        }
        working_set(&mut c, &wset, &probes, probe_to, "set.clone()")?;
        window(|| drop(c));
    } else {
        // the destination discards what it held (also in its old table) and adopts the source's hasher
        b.s.clone_from(&a.s);
        vcheck_eq!("set clone_from contents", ids_of(b.s.iter(), "set clone_from")?, want.clone());
        vcheck_eq!("set clone_from == source", b.s == a.s && a.s == b.s, true);
        if b.s.hasher().seed != a.s.hasher().seed || b.s.hasher().kind != a.s.hasher().kind {
            vbail!("mismatch", "clone_from did not adopt the source's hasher (source seed {}, destination seed {})", a.s.hasher().seed, b.s.hasher().seed);
        }
        b.r = b.s.iter().map(|x| (x.id(), x.obj())).collect();
        b.next_key = b.next_key.max(a.next_key);
        b.audit(true)?;
        working_set(&mut b.s, &wset, &probes, probe_to, "set after clone_from")?;
        b.r = b.s.iter().map(|x| (x.id(), x.obj())).collect();
        b.next_key = b.next_key.max(probe_to + 2);
    }
    // the source is untouched
    vcheck_eq!("source after clone", ids_of(a.s.iter(), "source")?, want);
    a.audit(true)?;
    Ok(variant as u64 ^ (a.r.len() as u64) << 8)
}

// ---------------------------------------------------------------------------------------------
// C11: clone / clone_from

/// The small alphabet of divergent steps after a clone.
fn c11_divergent(next_key: u32, present: &[u32]) -> Vec<Op> {
    let mut v = vec![Op::key(OpK::Insert, next_key)];
    if let Some(&k) = present.first() {
        v.push(Op::key(OpK::Insert, k));
        v.push(Op::key(OpK::Remove, k));
        v.push(Op::key(OpK::GetMut, k));
    }
    if let Some(&k) = present.last() {
        v.push(Op::key(OpK::Remove, k));
        v.push(Op::new(OpK::EntryChain, k, crate::chain::encode(&[crate::chain::O_REPLACE_WITH_NONE])));
    }
    v.push(Op::k(OpK::Clear));
    v.push(Op::arg(OpK::Retain, 4));
    v.push(Op::k(OpK::IterMutWrite));
    v.push(Op::arg(OpK::Reserve, 64));
    v.push(Op::k(OpK::ShrinkToFit));
    v.push(Op::arg(OpK::ExtendFresh, 12));
    v
}
pub const C11_VARIANTS: usize = 2 + 2 * 12;

fn c11_oracle<T: El>(a: &mut MapWorld<T>, b: &mut MapWorld<T>, spec: &ShardSpec, variant: usize) -> VResult<u64> {
    // variant 0: clone(); 1: clone_from(); 2+2i: clone_from then op i on the source; 3+2i: op i on the destination
    let src_dump = a.dump();
    let want: Vec<(u32, u32)> = a.r.iter().map(|(&k, &v)| (k, v)).collect();
    let contents = |m: &crate::chain::M<T, T>| {
        let mut v: Vec<(u32, u32)> = m.iter().map(|(k, v)| (k.id(), v.id())).collect();
        v.sort();
        v
    };
    if variant == 0 {
        let c = window(|| a.m.clone());
        vcheck_eq!("clone contents", contents(&c), want.clone());
        vcheck_eq!("clone == source", c == a.m, true);
        vcheck_eq!("source == clone", a.m == c, true);
        vcheck_eq!("clone.len", c.len(), want.len());
        if a.dump() != src_dump {
            vbail!("mismatch", "clone() changed the source's tables");
        }
        if T::TRACKED {
            let src: BTreeSet<u64> = a.m.iter().flat_map(|(k, v)| [k.obj(), v.obj()]).collect();
            for (k, v) in c.iter() {
                if src.contains(&k.obj()) || src.contains(&v.obj()) {
                    vbail!("ledger", "clone shares an element object with its source");
                }
            }
        }
        drop(c);
        return Ok(want.len() as u64);
    }
    // clone_from into B (any state, other hasher seed, arbitrary contents)
    let bm = &mut b.m;
    let am = &a.m;
    window(|| bm.clone_from(am));
    vcheck_eq!("clone_from contents", contents(&b.m), want.clone());
    vcheck_eq!("dest == source", b.m == a.m, true);
    vcheck_eq!("source == dest", a.m == b.m, true);
    if a.dump() != src_dump {
        vbail!("mismatch", "clone_from changed the source's tables");
    }
    if b.m.hasher().seed != a.m.hasher().seed || b.m.hasher().kind != a.m.hasher().kind {
        vbail!("mismatch", "clone_from did not adopt the source's hasher");
    }
    if b.m.verif_stats().old.is_some() {
        vbail!("mismatch", "clone_from left an old table in the destination");
    }
    if T::TRACKED {
        let src: BTreeSet<u64> = a.m.iter().flat_map(|(k, v)| [k.obj(), v.obj()]).collect();
        for (k, v) in b.m.iter() {
            if src.contains(&k.obj()) || src.contains(&v.obj()) {
                vbail!("ledger", "clone_from destination shares an element object with the source");
            }
        }
    }
    // the destination world now models the source's contents under the source's hasher
    b.r = a.r.clone();
    b.next_key = b.next_key.max(a.next_key);
    b.cfg.seed = a.cfg.seed;
    b.deadline = None;
    b.lazy_empty_ok = false;
    b.audit(true)?;
    if variant >= 2 {
        let present: Vec<u32> = a.r.keys().copied().collect();
        let nk = a.next_key.max(b.next_key);
        let ops = c11_divergent(nk, &present);
        let op = match ops.get((variant - 2) / 2) {
            Some(&o) => o,
            None => return Ok(0), // fewer divergent steps exist for an empty source
        };
        let on_source = (variant - 2) % 2 == 0;
        let d3: usize = spec.extra.get("d3").and_then(|s| s.parse().ok()).unwrap_or(1);
        let (x, y) = if on_source { (&mut *a, &mut *b) } else { (&mut *b, &mut *a) };
        let y_dump = y.dump();
        x.apply(op)?;
        x.audit(true)?;
        // a second divergent step (depth 2): the same op list again on the same side
        if d3 >= 2 {
            let present2: Vec<u32> = x.r.keys().copied().collect();
            for op2 in c11_divergent(x.next_key, &present2).into_iter().take(4) {
                x.apply(op2)?;
            }
            x.audit(true)?;
        }
        y.audit(true)?;
        if y.dump() != y_dump {
            vbail!("mismatch", "{} on one map changed the other map's tables", op);
        }
    }
    let _ = elem::ledger_fault();
    Ok(want.len() as u64 ^ (variant as u64) << 32)
}

// ---------------------------------------------------------------------------------------------
// C16: HashSet::deserialize_in_place for every (source, destination) pair

pub struct LyingIter<I> {
    inner: I,
    hint: Option<usize>,
}
impl<I: Iterator> Iterator for LyingIter<I> {
    type Item = I::Item;
    fn next(&mut self) -> Option<I::Item> {
        self.inner.next()
    }
    fn size_hint(&self) -> (usize, Option<usize>) {
        match self.hint {
            Some(h) => (h, Some(h)),
            None => (0, None),
        }
    }
}

fn c16_pair_oracle<T: El + crate::serde_impls::SerdeEl>(a: &mut SetWorld<T>, b: &mut SetWorld<T>, _spec: &ShardSpec, variant: usize) -> VResult<u64> {
    use serde::de::value::{Error as DeError, SeqDeserializer};
    use serde::Deserialize;
    let src: Vec<u32> = a.s.iter().map(|x| x.id()).collect(); // serialization order = iteration order
    let n = src.len();
    let hint = match variant {
        0 => Some(n),
        1 => None,
        2 => Some(0),
        _ => Some(1_000_000_000),
    };
    let de: SeqDeserializer<_, DeError> = SeqDeserializer::new(LyingIter { inner: src.clone().into_iter(), hint });
    // `S::default()` differs from the destination's hasher state: deserialising in place keeps the
    // destination's hasher, and what ends up there must be found with it (the audit below)
    let (hk, s1, s2) = (b.cfg.hk, a.s.hasher().seed, b.s.hasher().seed);
    crate::hasher::set_default_hb(hk, s1.wrapping_add(s2).wrapping_add(7));
    let place = &mut b.s;
    let r = window(|| griddle::HashSet::<T, HB>::deserialize_in_place(de, place));
    crate::hasher::set_default_hb(hk, s2);
    if b.s.hasher().seed != s2 {
        vbail!("mismatch", "deserialize_in_place replaced the destination's hasher (seed {} -> {})", s2, b.s.hasher().seed);
    }
    if let Err(e) = r {
        vbail!("mismatch", "deserialize_in_place failed: {}", e);
    }
    let mut got: Vec<u32> = b.s.iter().map(|x| x.id()).collect();
    got.sort();
    let mut want = src.clone();
    want.sort();
    if got != want {
        vbail!("mismatch", "after deserialize_in_place the destination holds {:?}, source held {:?}", got, want);
    }
    vcheck_eq!("dest == source", b.s == a.s, true);
    // re-synchronise the destination world and audit it fully
    b.r = b.s.iter().map(|x| (x.id(), x.obj())).collect::<BTreeMap<u32, u64>>();
    b.next_key = b.next_key.max(a.next_key);
    b.audit(true)?;
    Ok(n as u64 ^ (variant as u64) << 40)
}

// ---------------------------------------------------------------------------------------------

pub fn run_e3(spec: &ShardSpec, cur: Option<&str>) -> Outcome {
    use crate::elem::Tk;
    let fam_map = "mut1+ch0+shape";
    let fam_set = "skey+sshape";
    let seeds2: [(u64, u64); 2] = [(1, 1), (1, 2)];
    match (spec.prop.as_str(), spec.world.as_str(), spec.ty.as_str()) {
        ("C13", "set", "u32") => run_pairs::<SetWorld<u32>>(spec, cur, fam_set, &RENAMES, &seeds2, 1, &c13_oracle::<u32>),
        ("C13", "set", "tk") => run_pairs::<SetWorld<Tk>>(spec, cur, fam_set, &RENAMES, &seeds2, 1, &c13_oracle::<Tk>),
        ("C13", "set", "zst") => run_pairs::<SetWorld<()>>(spec, cur, fam_set, &RENAMES[..1], &seeds2, 1, &c13_oracle::<()>),
        ("C11", "map", "u32") => run_pairs::<MapWorld<u32>>(spec, cur, fam_map, &[RENAMES[0], RENAMES[3]], &[(1, 1), (1, 2), (2, 1)], c11_variants(spec), &c11_oracle::<u32>),
        ("C11", "map", "tk") => run_pairs::<MapWorld<Tk>>(spec, cur, fam_map, &[RENAMES[0], RENAMES[3]], &[(1, 1), (1, 2), (2, 1)], c11_variants(spec), &c11_oracle::<Tk>),
        ("C11", "map", "zst") => run_pairs::<MapWorld<()>>(spec, cur, fam_map, &RENAMES[..1], &[(1, 1), (1, 2)], 2, &c11_oracle::<()>),
        ("C11", "set", "u32") => run_pairs::<SetWorld<u32>>(spec, cur, fam_set, &[RENAMES[0], RENAMES[3]], &[(1, 1), (1, 2), (2, 1)], 2, &c11_set_oracle::<u32>),
        ("C11", "set", "tk") => run_pairs::<SetWorld<Tk>>(spec, cur, fam_set, &[RENAMES[0], RENAMES[3]], &[(1, 1), (1, 2), (2, 1)], 2, &c11_set_oracle::<Tk>),
        ("C16", "set", "u32") => run_pairs::<SetWorld<u32>>(spec, cur, fam_set, &[RENAMES[0], RENAMES[1]], &seeds2, 4, &c16_pair_oracle::<u32>),
        ("C16", "set", "tk") => run_pairs::<SetWorld<Tk>>(spec, cur, fam_set, &[RENAMES[0], RENAMES[1]], &seeds2, 4, &c16_pair_oracle::<Tk>),
        (p, w, t) => panic!("no pair oracle for {} {} {}", p, w, t),
    }
}
fn c11_variants(spec: &ShardSpec) -> usize {
    spec.extra.get("variants").and_then(|s| s.parse().ok()).unwrap_or(C11_VARIANTS)
}

pub fn replay_e3(spec: &ShardSpec, joined: &[Op]) -> VResult<()> {
    use crate::elem::Tk;
    match (spec.prop.as_str(), spec.world.as_str(), spec.ty.as_str()) {
        ("C13", "set", "u32") => replay_pair::<SetWorld<u32>>(spec, joined, &c13_oracle::<u32>),
        ("C13", "set", "tk") => replay_pair::<SetWorld<Tk>>(spec, joined, &c13_oracle::<Tk>),
        ("C13", "set", "zst") => replay_pair::<SetWorld<()>>(spec, joined, &c13_oracle::<()>),
        ("C11", "map", "u32") => replay_pair::<MapWorld<u32>>(spec, joined, &c11_oracle::<u32>),
        ("C11", "map", "tk") => replay_pair::<MapWorld<Tk>>(spec, joined, &c11_oracle::<Tk>),
        ("C11", "map", "zst") => replay_pair::<MapWorld<()>>(spec, joined, &c11_oracle::<()>),
        ("C11", "set", "u32") => replay_pair::<SetWorld<u32>>(spec, joined, &c11_set_oracle::<u32>),
        ("C11", "set", "tk") => replay_pair::<SetWorld<Tk>>(spec, joined, &c11_set_oracle::<Tk>),
        ("C16", "set", "u32") => replay_pair::<SetWorld<u32>>(spec, joined, &c16_pair_oracle::<u32>),
        ("C16", "set", "tk") => replay_pair::<SetWorld<Tk>>(spec, joined, &c16_pair_oracle::<Tk>),
        (p, w, t) => Err(Viol::new("machinery", format!("no pair replay for {} {} {}", p, w, t))),
    }
}

// ---------------------------------------------------------------------------------------------
// C16 (single collection): serialisation tokens and deserialisation with every size hint

type SingleFn<W> = dyn Fn(&mut W, usize) -> VResult<u64>;

fn run_singles<W: World>(spec: &ShardSpec, cur: Option<&str>, fam_alpha: &str, variants: usize, oracle: &SingleFn<W>) -> Outcome {
    let t0 = std::time::Instant::now();
    let mut out = Outcome::default();
    let cfg = spec.cfg();
    let cap: usize = spec.extra.get("fam").and_then(|s| s.parse().ok()).unwrap_or(2000);
    let mut fam = build_family::<W>(&cfg, fam_alpha, spec.n, cap, &mut out, cur);
    // large members (size thresholds in the glue, e.g. the 4096-element cap on pre-allocation hints)
    if let Some(big) = spec.extra.get("big") {
        let ins = if spec.world == "set" { OpK::SInsert } else { OpK::Insert };
        for nb in big.split(',').filter_map(|x| x.trim().parse::<u32>().ok()) {
            fam.push((0..nb).map(|k| Op::key(ins, k)).collect());
        }
    }
    let mut curf = CurFile::new(cur);
    out.layers.push((fam.len() as u64, 0));
    let mut seen: HashSet<u128> = HashSet::new();
    let mut obs_seen: HashSet<u64> = HashSet::new();
    let mut sigs: HashSet<String> = HashSet::new();
    for h in &fam {
        for variant in 0..variants {
            let mut hh = h.clone();
            hh.push(Op::new(OpK::Clear, u32::MAX, variant as u64));
            curf.put(&hh, None);
            PROGRESS.fetch_add(1, std::sync::atomic::Ordering::Relaxed);
            reset_exec();
            out.executions += 1;
            out.transitions += 1;
            let res = build::<W>(&cfg, h).and_then(|mut w| {
                out.steps += h.len() as u64;
                if seen.insert(w.key128()) {
                    out.states += 1;
                    out.phases[w.phase() as usize & 3] += 1;
                }
                match catch(|| oracle(&mut w, variant)) {
                    Ok(Ok(o)) => {
                        obs_seen.insert(o);
                        w.audit(true)?;
                        w.finish()
                    }
                    Ok(Err(v)) => {
                        std::mem::forget(w);
                        Err(v)
                    }
                    Err(p) => {
                        std::mem::forget(w);
                        Err(Viol::new("panic", p))
                    }
                }
            });
            if let Err(v) = res {
                out.viol_count += 1;
                let sig = engine::sig_of(&v.kind, &v.msg, None);
                if sigs.insert(sig) && out.violations.len() < 12 {
                    out.violations.push(FoundViol { kind: v.kind, msg: v.msg, history: hh.clone(), step: 0 });
                }
            }
            if out.samples.len() < 3 && out.executions % 499 == 1 {
                out.samples.push(hh);
            }
        }
    }
    out.distinct_obs = obs_seen.len() as u64;
    out.wall_s = t0.elapsed().as_secs_f64();
    out
}

fn replay_single<W: World>(spec: &ShardSpec, hh: &[Op], oracle: &SingleFn<W>) -> VResult<()> {
    let pos = match hh.iter().position(|o| o.k == OpK::Clear && o.key == u32::MAX) {
        Some(p) => p,
        None => return replay_plain::<W>(spec, hh),
    };
    let variant = hh[pos].arg as usize;
    reset_exec();
    let mut w = build::<W>(&spec.cfg(), &hh[..pos])?;
    match catch(|| oracle(&mut w, variant)) {
        Ok(Ok(_)) => {
            w.audit(true)?;
            w.finish()
        }
        Ok(Err(v)) => {
            std::mem::forget(w);
            Err(v)
        }
        Err(p) => {
            std::mem::forget(w);
            Err(Viol::new("panic", p))
        }
    }
}

fn tok_u32(id: u32) -> serde_test::Token {
    serde_test::Token::U32(id)
}

fn c16_map_oracle<T: El + crate::serde_impls::SerdeEl + PartialEq>(w: &mut MapWorld<T>, variant: usize) -> VResult<u64> {
    use serde::de::value::{Error as DeError, MapDeserializer};
    use serde::Deserialize;
    use serde_test::Token;
    let order: Vec<(u32, u32)> = w.m.iter().map(|(k, v)| (k.id(), v.id())).collect();
    let n = order.len();
    match variant {
        0 => {
            // serialisation: exact length, each element once, in iteration order
            let mut toks = vec![Token::Map { len: Some(n) }];
            for &(k, v) in &order {
                if T::ZST {
                    toks.push(Token::Unit);
                    toks.push(Token::Unit);
                } else {
                    toks.push(tok_u32(k));
                    toks.push(tok_u32(v));
                }
            }
            toks.push(Token::MapEnd);
            // assert_tokens panics with a description on any difference (caught by the caller);
            // it also deserialises the tokens and compares with == (and in place)
            crate::hasher::set_default_hb(w.cfg.hk, w.cfg.seed);
            serde_test::assert_tokens(&w.m, &toks);
        }
        _ => {
            if T::ZST {
                return Ok(0);
            }
            let hint = [Some(n), None, Some(0), Some(1_000_000_000), None, Some(n)][variant - 1];
            crate::hasher::set_default_hb(w.cfg.hk, w.cfg.seed.wrapping_add(variant as u64));
            // variants 5 and 6: every key also occurs earlier with a stale value (the last one wins)
            let mut input: Vec<(u32, u32)> = vec![];
            if variant >= 5 {
                for &(k, v) in order.iter().rev() {
                    input.push((k, (v + 1) % 3));
                }
                for (i, &(k, v)) in order.iter().enumerate() {
                    if i % 2 == 0 {
                        input.push((k, (v + 2) % 3));
                    }
                }
            }
            input.extend(order.iter().copied());
            let de: MapDeserializer<_, DeError> = MapDeserializer::new(LyingIter { inner: input.into_iter(), hint });
            let got = window(|| crate::chain::M::<T, T>::deserialize(de)).map_err(|e| Viol::new("mismatch", format!("deserialize failed: {}", e)))?;
            let mut g: Vec<(u32, u32)> = got.iter().map(|(k, v)| (k.id(), v.id())).collect();
            g.sort();
            let want: Vec<(u32, u32)> = w.r.iter().map(|(&k, &v)| (k, v)).collect();
            if g != want {
                vbail!("mismatch", "deserialised map holds {:?}, original {:?}", g, want);
            }
            vcheck_eq!("deserialised == original", got == w.m, true);
            vcheck_eq!("original == deserialised", w.m == got, true);
            drop(got);
        }
    }
    Ok(n as u64 ^ (variant as u64) << 40)
}

fn c16_set_oracle<T: El + crate::serde_impls::SerdeEl + PartialEq>(w: &mut SetWorld<T>, variant: usize) -> VResult<u64> {
    use serde::de::value::{Error as DeError, SeqDeserializer};
    use serde::Deserialize;
    use serde_test::Token;
    let order: Vec<u32> = w.s.iter().map(|k| k.id()).collect();
    let n = order.len();
    match variant {
        0 => {
            let mut toks = vec![Token::Seq { len: Some(n) }];
            for &k in &order {
                toks.push(if T::ZST { Token::Unit } else { tok_u32(k) });
            }
            toks.push(Token::SeqEnd);
            crate::hasher::set_default_hb(w.cfg.hk, w.cfg.seed);
            serde_test::assert_tokens(&w.s, &toks);
        }
        _ => {
            if T::ZST {
                return Ok(0);
            }
            let hint = [Some(n), None, Some(0), Some(1_000_000_000)][variant - 1];
            crate::hasher::set_default_hb(w.cfg.hk, w.cfg.seed.wrapping_add(variant as u64));
            let de: SeqDeserializer<_, DeError> = SeqDeserializer::new(LyingIter { inner: order.clone().into_iter(), hint });
            let got = window(|| crate::setworld::S::<T>::deserialize(de)).map_err(|e| Viol::new("mismatch", format!("deserialize failed: {}", e)))?;
            let mut g: Vec<u32> = got.iter().map(|k| k.id()).collect();
            g.sort();
            let want: Vec<u32> = w.r.keys().copied().collect();
            if g != want {
                vbail!("mismatch", "deserialised set holds {:?}, original {:?}", g, want);
            }
            vcheck_eq!("deserialised == original", got == w.s, true);
            vcheck_eq!("original == deserialised", w.s == got, true);
            drop(got);
        }
    }
    Ok(n as u64 ^ (variant as u64) << 40)
}

pub fn run_e3s(spec: &ShardSpec, cur: Option<&str>) -> Outcome {
    use crate::elem::Tk;
    match (spec.prop.as_str(), spec.world.as_str(), spec.ty.as_str()) {
        ("C16", "map", "u32") => run_singles::<MapWorld<u32>>(spec, cur, "mut1+ch0+shape", 7, &c16_map_oracle::<u32>),
        ("C16", "map", "tk") => run_singles::<MapWorld<Tk>>(spec, cur, "mut1+ch0+shape", 7, &c16_map_oracle::<Tk>),
        ("C16", "map", "zst") => run_singles::<MapWorld<()>>(spec, cur, "mut1+ch0+shape", 1, &c16_map_oracle::<()>),
        ("C16", "set", "u32") => run_singles::<SetWorld<u32>>(spec, cur, "skey+sshape", 5, &c16_set_oracle::<u32>),
        ("C16", "set", "tk") => run_singles::<SetWorld<Tk>>(spec, cur, "skey+sshape", 5, &c16_set_oracle::<Tk>),
        ("C16", "set", "zst") => run_singles::<SetWorld<()>>(spec, cur, "skey+sshape", 1, &c16_set_oracle::<()>),
        (p, w, t) => panic!("no single oracle for {} {} {}", p, w, t),
    }
}
pub fn replay_e3s(spec: &ShardSpec, hh: &[Op]) -> VResult<()> {
    use crate::elem::Tk;
    match (spec.prop.as_str(), spec.world.as_str(), spec.ty.as_str()) {
        ("C16", "map", "u32") => replay_single::<MapWorld<u32>>(spec, hh, &c16_map_oracle::<u32>),
        ("C16", "map", "tk") => replay_single::<MapWorld<Tk>>(spec, hh, &c16_map_oracle::<Tk>),
        ("C16", "map", "zst") => replay_single::<MapWorld<()>>(spec, hh, &c16_map_oracle::<()>),
        ("C16", "set", "u32") => replay_single::<SetWorld<u32>>(spec, hh, &c16_set_oracle::<u32>),
        ("C16", "set", "tk") => replay_single::<SetWorld<Tk>>(spec, hh, &c16_set_oracle::<Tk>),
        ("C16", "set", "zst") => replay_single::<SetWorld<()>>(spec, hh, &c16_set_oracle::<()>),
        (p, w, t) => Err(Viol::new("machinery", format!("no single replay for {} {} {}", p, w, t))),
    }
}
