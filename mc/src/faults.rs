//! E4: fault enumeration (C07).  For every state of a family and every op of the alphabet, a panic
//! is injected at each individual invocation (1st, 2nd, ... last) of each user callback kind the op
//! performs; after the caught panic the map must be memory-safe and self-consistent, lose only what
//! the statement allows, and behave normally afterwards.

use crate::alpha;
use crate::elem::{self, El, Tk};
use crate::engine::{reset_exec, AlphaCtx, CurFile, FoundViol, Outcome, PROGRESS};
use crate::hasher::{self, Cb, CB_ALL, CB_NAMES, FUSE_MSG};
use crate::mapworld::MapWorld;
use crate::op::*;
use crate::pairs::build_family;
use crate::shard::ShardSpec;
use crate::vbail;
use std::collections::{BTreeMap, BTreeSet, HashSet};

type W = MapWorld<Tk>;

fn build(cfg: &crate::mapworld::Cfg, h: &[Op]) -> VResult<W> {
    let mut w = W::create(cfg)?;
    for &o in h {
        if let Err(v) = w.apply(o) {
            std::mem::forget(w);
            return Err(v);
        }
    }
    Ok(w)
}

fn range_of(op: Op, next_key: u32) -> Vec<u32> {
    match op.k {
        OpK::ExtendFresh => (next_key..next_key + op.arg as u32).collect(),
        OpK::ExtendOverlap | OpK::ExtendRef => (op.key..op.key + op.arg as u32).collect(),
        _ => vec![],
    }
}
/// Keys the op may add.
fn may_add(op: Op, next_key: u32) -> BTreeSet<u32> {
    match op.k {
        // (the raw vacant handle may be asked to insert another, absent key: any id used so far)
        OpK::RawChain if crate::chain::decode(op.arg >> 2).contains(&crate::chain::RV_INSERT_OTHER) => (0..next_key.max(op.key + 1)).collect(),
        OpK::Insert | OpK::EntryChain | OpK::RawChain => [op.key].into_iter().collect(),
        _ => range_of(op, next_key).into_iter().collect(),
    }
}
/// Keys whose value the op may write (None = all).
fn may_write(op: Op, next_key: u32) -> Option<BTreeSet<u32>> {
    match op.k {
        OpK::IterMutWrite | OpK::ValuesMutWrite => None,
        OpK::Retain if op.arg >> 16 & 1 == 1 => None,
        OpK::Insert | OpK::GetMut | OpK::GetKeyValueMut | OpK::EntryChain | OpK::RawChain => Some([op.key].into_iter().collect()),
        _ => Some(range_of(op, next_key).into_iter().collect()),
    }
}

/// The state of the map right after a caught injected panic.
fn post_fault_oracle(w: &mut W, op: Op, kind: Cb, pre: &BTreeMap<u32, u32>, pre_next: u32) -> VResult<()> {
    if let Some(f) = elem::ledger_fault() {
        vbail!("ledger", "after a panicking {}: {}", CB_NAMES[kind as usize], f);
    }
    let m = &w.m;
    // every iterated element is live (id() checks canary + ledger) and found by get
    let contents: Vec<(u32, u32, u64, u64)> = m.iter().map(|(k, v)| (k.id(), v.id(), k.obj(), v.obj())).collect();
    if let Some(f) = elem::ledger_fault() {
        vbail!("ledger", "iterating after a panicking {}: {}", CB_NAMES[kind as usize], f);
    }
    if m.len() != contents.len() {
        vbail!("audit", "after a panicking {}: len() = {} but iter() yields {} entries", CB_NAMES[kind as usize], m.len(), contents.len());
    }
    let mut seen = BTreeSet::new();
    let mut objs = BTreeSet::new();
    let writes = may_write(op, pre_next);
    let adds = may_add(op, pre_next);
    for &(k, v, ko, vo) in &contents {
        if !seen.insert(k) {
            vbail!("audit", "after a panicking {}: key {} is stored twice", CB_NAMES[kind as usize], k);
        }
        if !objs.insert(ko) || !objs.insert(vo) {
            vbail!("ledger", "after a panicking {}: an element object is stored twice", CB_NAMES[kind as usize]);
        }
        let probe = Tk::mk(k, true);
        let g = m.get(&probe).map(|x| x.id());
        drop(probe);
        if g != Some(v) {
            vbail!("audit", "after a panicking {}: iter() yields ({}, {}) but get({}) = {:?}", CB_NAMES[kind as usize], k, v, k, g);
        }
        match pre.get(&k) {
            Some(&pv) => {
                let written = writes.as_ref().map_or(true, |s| s.contains(&k));
                let ok = v == pv || (written && v < 3);
                if !ok {
                    vbail!("audit", "after a panicking {}: key {} holds {} but had {} and the call does not write it", CB_NAMES[kind as usize], k, v, pv);
                }
            }
            None => {
                if !adds.contains(&k) {
                    vbail!("audit", "after a panicking {}: key {} appeared from nowhere", CB_NAMES[kind as usize], k);
                }
            }
        }
    }
    // lost elements within the documented allowance
    let lost: Vec<u32> = pre.keys().copied().filter(|k| !seen.contains(k)).collect();
    let removed_by_call: BTreeSet<u32> = match op.k {
        // what the call removes when it runs to completion is of course allowed to be gone
        OpK::Remove | OpK::RemoveEntry | OpK::EntryChain | OpK::RawChain => [op.key].into_iter().collect(),
        OpK::Clear | OpK::Drain | OpK::IntoIter | OpK::FromIter => pre.keys().copied().collect(),
        _ => BTreeSet::new(),
    };
    let log = hasher::cb_log();
    let allowed: Option<BTreeSet<u32>> = match kind {
        // a panicking Hash may drop elements being relocated: whole-table rehashes (shrink_to) may lose
        // any number; clone()/clone_from()/from_iter() hash into another table and must leave the source
        // alone; any other call relocates at most R elements
        Cb::Hash => match op.k {
            // whole-table work: shrink_to rehashes, reserve / extend mid-resize relocate all leftovers
            OpK::ShrinkTo | OpK::ShrinkToFit | OpK::Reserve | OpK::TryReserve | OpK::ExtendFresh | OpK::ExtendOverlap | OpK::ExtendRef | OpK::ExtendHint => None,
            OpK::CloneReplace | OpK::CloneFromInto | OpK::FromIter => Some(BTreeSet::new()),
            _ => {
                // a single key-adding call relocates at most R elements
                let mut s: BTreeSet<u32> = log.iter().filter(|e| e.1).map(|e| e.0).collect();
                if lost.len() <= griddle::verif::R + s.len() {
                    s.extend(lost.iter().copied());
                }
                Some(s)
            }
        },
        Cb::Closure => {
            let mut s: BTreeSet<u32> = log.iter().filter(|e| e.1).map(|e| e.0).collect();
            if let Some(l) = log.last() {
                s.insert(l.0);
            }
            s.insert(op.key); // entry closures: the element of the entry
            Some(s)
        }
        Cb::Eq => {
            // at most one element (the one being compared), plus what predicates already removed
            let mut s: BTreeSet<u32> = log.iter().filter(|e| e.1).map(|e| e.0).collect();
            if lost.len() <= 1 + s.len() {
                s.extend(lost.iter().copied());
            }
            Some(s)
        }
        // a failed clone()/clone_from() reads the source only
        Cb::CloneK | Cb::CloneV | Cb::CloneS => Some(log.iter().filter(|e| e.1).map(|e| e.0).collect()),
        // a panicking destructor (C05: memory safety for any element type): no statement bounds what is lost
        // or leaked; what is left must be consistent (the checks above and the cursor check below)
        Cb::Drop => None,
    };
    if let Some(a) = allowed {
        for k in &lost {
            if !a.contains(k) && !removed_by_call.contains(k) {
                vbail!("audit", "after a panicking {} in {}: element {} was lost (allowed to be lost: {:?})", CB_NAMES[kind as usize], op, k, a);
            }
        }
    }
    // the cached move cursor still agrees with the old table
    w.check_cursor()?;
    if w.m.capacity() < w.m.len() {
        vbail!("audit", "after a panicking {}: capacity {} < len {}", CB_NAMES[kind as usize], w.m.capacity(), w.m.len());
    }
    Ok(())
}

/// Later operations behave normally: a fixed tour of calls, then the growth path across the next
/// resizes, with audits; finally everything is dropped (no double drop; leaks are not judged).
fn continuation(w: &mut W, per_op: Option<usize>) -> VResult<()> {
    let tour = |w: &W| -> Vec<Op> {
        let c = w.classes();
        let mut t = vec![];
        for k in [c.old_next, c.main_a, c.old_last].into_iter().flatten() {
            t.push(Op::key(OpK::Get, k));
            t.push(Op::key(OpK::Insert, k));
        }
        if let Some(k) = c.main_b {
            t.push(Op::key(OpK::Remove, k));
        }
        if let Some(k) = c.old_beyond.or(c.old_same) {
            t.push(Op::new(OpK::EntryChain, k, crate::chain::encode(&[crate::chain::O_REPLACE_WITH_NONE, crate::chain::V_INSERT])));
        }
        t.push(Op::arg(OpK::IterCheck, 0));
        t.push(Op::key(OpK::Insert, w.next_key));
        t.push(Op::arg(OpK::Retain, 4));
        t.push(Op::arg(OpK::Reserve, 8));
        t.push(Op::k(OpK::IterMutWrite));
        t
    };
    match per_op {
        Some(i) => {
            // a single call of the tour, then the trajectory
            let t = tour(w);
            if let Some(&op) = t.get(i) {
                w.apply(op)?;
                w.audit(true)?;
            }
        }
        None => {
            for op in tour(w) {
                w.apply(op)?;
                w.audit(true)?;
            }
        }
    }
    let target = w.r.len() + 40;
    while w.r.len() < target {
        let op = Op::key(OpK::Insert, w.next_key);
        w.apply(op)?;
        w.audit(false)?;
    }
    w.audit(true)?;
    for op in [Op::k(OpK::ShrinkToFit), Op::k(OpK::CloneReplace), Op::arg(OpK::Drain, 0)] {
        w.apply(op)?;
        w.audit(true)?;
    }
    Ok(())
}

pub const REFAULT: usize = 200;
/// Continuation that starts with `shrink_to_fit` (only run when the fault left an old table behind):
/// a right-sized, possibly exactly full main table is where a left-over bookkeeping error shows first.
pub const SHRINK_FIRST: usize = 201;

/// A fault that keeps coming back: every one of the next 64 key-adding calls has the first hash after
/// the added key's own (the first element it relocates, while a resize is pending) panic again.  Each
/// such call is judged like the first one (bounded loss, consistency); the resize must still make
/// progress, so that the calls after the faults stop behave normally and nothing but the injected
/// panics is ever raised.
fn refault_trajectory(w: &mut W) -> VResult<()> {
    for _ in 0..64 {
        let op = Op::key(OpK::Insert, w.next_key);
        let pre = w.r.clone();
        let pre_next = w.next_key;
        hasher::reset_counts();
        hasher::arm(Cb::Hash, 2);
        let r = w.apply_faulty(op);
        let fired = !hasher::armed();
        hasher::disarm();
        match r {
            Ok(Ok(_)) if !fired => {
                w.audit(false)?;
                continue;
            }
            Ok(Ok(_)) => {}
            Ok(Err(v)) => return Err(v),
            Err(msg) => {
                if !msg.starts_with(FUSE_MSG) {
                    return Err(Viol::new("panic", format!("in a key-adding call after repeated Hash panics: {}", msg)));
                }
            }
        }
        post_fault_oracle(w, op, Cb::Hash, &pre, pre_next)?;
        w.r = w.m.iter().map(|(k, v)| (k.id(), v.id())).collect();
        w.next_key = w.next_key.max(pre_next + 1);
        w.deadline = None;
        w.lazy_empty_ok = false;
        w.audit(true)?;
    }
    Ok(())
}

/// One injected fault: returns Ok(true) if the fuse fired.
fn inject(cfg: &crate::mapworld::Cfg, state: &[Op], op: Op, kind: Cb, i: u64, per_op: Option<usize>, steps: &mut u64) -> VResult<bool> {
    reset_exec();
    let mut w = build(cfg, state)?;
    *steps += state.len() as u64 + 1;
    let pre = w.r.clone();
    let pre_next = w.next_key;
    hasher::reset_counts();
    hasher::arm(kind, i);
    let r = w.apply_faulty(op);
    let fired = !hasher::armed();
    hasher::disarm();
    match r {
        Ok(Ok(_)) if !fired => {
            // the call completed: the callback was not invoked i times this time
            w.leaky = true;
            let _ = w.finish();
            return Ok(false);
        }
        Ok(Ok(_)) => {
            // the fuse fired but the panic was swallowed by the call: it must still be consistent
        }
        Ok(Err(v)) => {
            std::mem::forget(w);
            return Err(v);
        }
        Err(msg) => {
            if !msg.starts_with(FUSE_MSG) {
                std::mem::forget(w);
                return Err(Viol::new("panic", format!("while a {} fuse was armed: {}", CB_NAMES[kind as usize], msg)));
            }
        }
    }
    let res = post_fault_oracle(&mut w, op, kind, &pre, pre_next).and_then(|_| {
        // re-synchronise the reference with the survivors and carry on
        w.r = w.m.iter().map(|(k, v)| (k.id(), v.id())).collect();
        let top = may_add(op, pre_next).into_iter().chain(w.r.keys().copied()).max().map_or(0, |k| k + 1);
        w.next_key = w.next_key.max(top);
        w.deadline = None;
        w.lazy_empty_ok = false;
        w.leaky = true;
        w.audit(true)?;
        if per_op == Some(REFAULT) {
            refault_trajectory(&mut w)?;
        }
        if per_op == Some(SHRINK_FIRST) {
            if w.stats().old.is_none() {
                return Ok(());
            }
            w.apply(Op::k(OpK::ShrinkToFit))?;
            w.audit(true)?;
        }
        continuation(&mut w, per_op)
    });
    match res {
        Ok(()) => {
            w.finish()?; // double drops only (leaky)
            Ok(true)
        }
        Err(v) => {
            std::mem::forget(w);
            Err(v)
        }
    }
}

pub const SEP_KEY: u32 = u32::MAX;

pub fn run_e4(spec: &ShardSpec, cur: Option<&str>) -> Outcome {
    let t0 = std::time::Instant::now();
    let mut out = Outcome::default();
    let cfg = spec.cfg();
    let cap: usize = spec.extra.get("fam").and_then(|s| s.parse().ok()).unwrap_or(100);
    let part: usize = spec.extra.get("part").and_then(|s| s.parse().ok()).unwrap_or(0);
    let parts: usize = spec.extra.get("parts").and_then(|s| s.parse().ok()).unwrap_or(1);
    let per_op_cont = spec.extra.get("per_op_cont").map_or(false, |s| s == "1");
    let refault = spec.extra.get("refault").map_or(false, |s| s == "1");
    // "kinds" = "drop": inject panicking destructors only (C05); otherwise every kind the C07 statement names
    let drop_only = spec.extra.get("kinds").map_or(false, |s| s == "drop");
    let shrink_first = spec.extra.get("shrink_first").map_or(false, |s| s == "1");
    let fam_alpha = spec.extra.get("fam_alpha").cloned().unwrap_or_else(|| "mut1+ch0+shape".to_string());
    let fam = build_family::<W>(&cfg, &fam_alpha, spec.n, cap, &mut out, cur);
    out.layers.push((fam.len() as u64, 0));
    let mut curf = CurFile::new(cur);
    let alpha = alpha::by_name(&spec.alpha);
    let mut sigs: HashSet<String> = HashSet::new();
    let mut seen: HashSet<u128> = HashSet::new();
    let mut points_by_kind = [0u64; 7];
    let mut distinct_points: HashSet<(u128, Op, u8, u64)> = HashSet::new();
    'all: for (si, state) in fam.iter().enumerate() {
        if si % parts != part {
            continue;
        }
        // resolve the alphabet on the state
        reset_exec();
        let (ops, skey) = match build(&cfg, state) {
            Ok(w) => {
                let c = AlphaCtx { classes: w.classes(), next_key: w.next_key, len: w.r.len(), cap: w.m.capacity(), present: w.r.keys().copied().collect(), concrete: false, layer: 0, universe: 0 };
                let k = w.key128();
                let ops = alpha(&c);
                drop(w);
                (ops, k)
            }
            Err(v) => {
                out.viol_count += 1;
                out.violations.push(FoundViol { kind: v.kind, msg: v.msg, history: state.clone(), step: 0 });
                continue;
            }
        };
        if seen.insert(skey) {
            out.states += 1;
        }
        for op in ops {
            // 1. fault-free run counts the invocations of every callback kind
            reset_exec();
            let counts = match build(&cfg, state) {
                Ok(mut w) => {
                    hasher::reset_counts();
                    let r = w.apply_faulty(op);
                    let c = hasher::counts();
                    out.executions += 1;
                    out.steps += state.len() as u64 + 1;
                    match r {
                        Ok(Ok(_)) => {
                            w.leaky = true;
                            let _ = w.finish();
                            c
                        }
                        _ => {
                            // the op itself fails without a fault: other checks report that
                            std::mem::forget(w);
                            continue;
                        }
                    }
                }
                Err(_) => continue,
            };
            // 2. every crash point of every callback kind
            for &kind in &CB_ALL {
                if (kind == Cb::Drop) != drop_only {
                    continue;
                }
                for i in 1..=counts[kind as usize] {
                    if t0.elapsed().as_secs_f64() > spec.max_secs {
                        out.capped = Some(format!("time cap {}s", spec.max_secs));
                        break 'all;
                    }
                    let mut conts: Vec<Option<usize>> = if per_op_cont { (0..14).map(Some).chain([None]).collect() } else { vec![None] };
                    if refault && kind == Cb::Hash {
                        conts.push(Some(REFAULT));
                    }
                    if shrink_first {
                        conts.push(Some(SHRINK_FIRST));
                    }
                    for per_op in conts {
                        let mut hist = state.clone();
                        hist.push(Op::new(OpK::Clear, SEP_KEY, (kind as u64) | i << 8 | (per_op.map_or(255, |x| x as u64)) << 40));
                        hist.push(op);
                        curf.put(&hist, None);
                        PROGRESS.fetch_add(1, std::sync::atomic::Ordering::Relaxed);
                        out.executions += 1;
                        out.transitions += 1;
                        match inject(&cfg, state, op, kind, i, per_op, &mut out.steps) {
                            Ok(true) => {
                                points_by_kind[kind as usize] += 1;
                                distinct_points.insert((skey, op, kind as u8, i));
                            }
                            Ok(false) => {}
                            Err(v) => {
                                out.viol_count += 1;
                                let sig = crate::engine::sig_of(&v.kind, &v.msg, None);
                                if sigs.insert(sig) && out.violations.len() < 12 {
                                    out.violations.push(FoundViol { kind: v.kind, msg: v.msg, history: hist.clone(), step: 0 });
                                }
                            }
                        }
                        if out.samples.len() < 4 && out.executions % 1999 == 1 {
                            out.samples.push(hist);
                        }
                    }
                }
            }
        }
    }
    out.distinct_obs = distinct_points.len() as u64;
    out.phases = [points_by_kind[0], points_by_kind[1], points_by_kind[2] + points_by_kind[3] + points_by_kind[4], points_by_kind[5]];
    out.wall_s = t0.elapsed().as_secs_f64();
    out
}

pub fn replay_e4(spec: &ShardSpec, hist: &[Op]) -> VResult<()> {
    let pos = match hist.iter().position(|o| o.k == OpK::Clear && o.key == SEP_KEY) {
        Some(p) => p,
        None => return crate::pairs::replay_plain::<W>(spec, hist),
    };
    let code = hist[pos].arg;
    let kind = CB_ALL[(code & 0xFF) as usize];
    let i = (code >> 8) & 0xFFFF_FFFF;
    let per = (code >> 40) & 0xFF;
    let per_op = if per == 255 { None } else { Some(per as usize) };
    let op = *hist.get(pos + 1).ok_or_else(|| Viol::new("machinery", "no op after the fault marker"))?;
    let mut steps = 0;
    inject(&spec.cfg(), &hist[..pos], op, kind, i, per_op, &mut steps).map(|_| ())
}
