//! The set world: a real `griddle::HashSet<T, HB>` next to a `BTreeMap<id, object>` reference.

use crate::alloc::{self, harness, window};
use crate::elem::{self, El};
use crate::hasher::{set_default_hb, tick, Cb, HB};
use crate::itercheck::walk;
use crate::mapworld::{Cfg, Classes};
use crate::op::*;
use crate::util::{catch, hash_dump, H128};
use crate::{vbail, vcheck_eq};
use griddle::verif::Dump;
use griddle::HashSet;
use std::collections::{BTreeMap, BTreeSet};

pub type S<T> = HashSet<T, HB>;

pub struct SetWorld<T: El> {
    pub s: S<T>,
    /// logical id -> object id of the stored element (0 for untracked types)
    pub r: BTreeMap<u32, u64>,
    pub next_key: u32,
    pub cfg: Cfg,
    pub leaky: bool,
    pub ops_done: u32,
}

impl<T: El> SetWorld<T> {
    pub fn create(cfg: &Cfg) -> VResult<Self> {
        set_default_hb(cfg.hk, cfg.seed);
        let (hk, seed, cap0) = (cfg.hk, cfg.seed, cfg.cap0);
        let s = catch(|| window(|| S::<T>::with_capacity_and_hasher(cap0, HB::new(hk, seed)))).map_err(|e| Viol::new("panic", format!("with_capacity({}): {}", cap0, e)))?;
        if s.capacity() < cap0 {
            vbail!("contract", "with_capacity({}) gives capacity {}", cap0, s.capacity());
        }
        Ok(SetWorld { s, r: BTreeMap::new(), next_key: 0, cfg: cfg.clone(), leaky: false, ops_done: 0 })
    }
    fn note_key(&mut self, k: u32) {
        if T::ZST {
            self.next_key = 1;
        } else if k >= self.next_key {
            self.next_key = k + 1;
        }
    }
    pub fn dump(&self) -> Dump {
        harness(|| self.s.verif_dump(|k| (k.id() as u64) << 8))
    }
    fn old_ids(d: &Dump) -> Vec<u32> {
        d.old.as_ref().map_or(vec![], |o| o.elems.iter().filter(|&&e| e != u64::MAX).map(|e| (e >> 8) as u32).collect())
    }
    pub fn classes(&self) -> Classes {
        let d = self.dump();
        let mut c = Classes { new: if T::ZST { 0 } else { self.next_key }, ..Default::default() };
        if !T::ZST {
            c.reuse = (0..self.next_key).find(|k| !self.r.contains_key(k));
        }
        let main: Vec<u32> = d.main.elems.iter().filter(|&&e| e != u64::MAX).map(|e| (e >> 8) as u32).collect();
        c.main_a = main.first().copied();
        c.main_b = main.last().copied();
        if let (Some(o), Some(y)) = (&d.old, &d.cursor_yields) {
            let id = |i: usize| (o.elems[i] >> 8) as u32;
            if let Some(&first) = y.first() {
                c.old_next = Some(id(first));
                c.old_same = y.iter().skip(1).find(|&&i| i / 16 == first / 16).map(|&i| id(i));
                c.old_beyond = y.iter().find(|&&i| i / 16 > first / 16).map(|&i| id(i));
                c.old_last = y.last().map(|&i| id(i));
            }
        }
        c
    }
    pub fn key128(&self) -> u128 {
        let d = self.dump();
        let mut h = H128::new();
        hash_dump(&mut h, &d);
        h.u64(self.next_key as u64);
        h.u64(self.cfg.hk as u64);
        h.u64(self.s.hasher().seed);
        h.u64(self.leaky as u64);
        h.finish()
    }
    pub fn obs_state(&self) -> u64 {
        let mut h = H128::new();
        h.u64(self.s.len() as u64);
        h.u64(self.s.capacity() as u64);
        let mut v: Vec<u32> = self.s.iter().map(|k| k.id()).collect();
        v.sort();
        for k in v {
            h.u64(k as u64);
        }
        h.finish64()
    }
    pub fn ids(&self) -> Vec<u32> {
        self.r.keys().copied().collect()
    }

    pub fn audit(&mut self, full: bool) -> VResult<()> {
        let s = &self.s;
        vcheck_eq!("len", s.len(), self.r.len());
        vcheck_eq!("is_empty", s.is_empty(), self.r.is_empty());
        if s.capacity() < s.len() {
            vbail!("audit", "capacity {} < len {}", s.capacity(), s.len());
        }
        if let Some(f) = elem::ledger_fault() {
            vbail!("ledger", "{}", f);
        }
        if !full {
            return Ok(());
        }
        let mut got: Vec<(u32, u64)> = s.iter().map(|k| (k.id(), k.obj())).collect();
        got.sort();
        let want: Vec<(u32, u64)> = self.r.iter().map(|(&k, &o)| (k, o)).collect();
        if got != want {
            vbail!("audit", "contents differ: iter gives (id,obj) {:?}, reference {:?}", got, want);
        }
        for (&k, &o) in &self.r {
            let kk = T::mk(k, true);
            let g = s.get(&kk).map(|x| (x.id(), x.obj()));
            let c = s.contains(&kk);
            drop(kk);
            if g != Some((k, o)) || !c {
                vbail!("audit", "get({}) = {:?} contains = {}, reference obj {}", k, g, c, o);
            }
        }
        if !T::ZST {
            for k in [self.next_key, self.next_key + 1] {
                let kk = T::mk(k, true);
                if s.contains(&kk) {
                    vbail!("audit", "contains(absent {})", k);
                }
            }
        }
        if self.cfg.flags.cursor {
            let st = s.verif_stats();
            if let Some((len, _, rem)) = st.old {
                if len != rem {
                    vbail!("cursor", "cached iterator expects {} elements, old table holds {}", rem, len);
                }
                let d = self.dump();
                let o = d.old.as_ref().unwrap();
                let fullb: BTreeSet<usize> = (0..o.buckets).filter(|&i| o.ctrl[i] & 0x80 == 0).collect();
                let y: BTreeSet<usize> = d.cursor_yields.clone().unwrap_or_default().into_iter().collect();
                if fullb != y {
                    vbail!("cursor", "cached iterator would yield buckets {:?}, full old buckets are {:?}", d.cursor_yields, fullb);
                }
            }
        }
        if let Some(f) = elem::ledger_fault() {
            vbail!("ledger", "{}", f);
        }
        Ok(())
    }

    pub fn apply(&mut self, op: Op) -> VResult<u64> {
        self.ops_done += 1;
        // C02 for the single-element set calls: what was present before, the table lengths, hashes, allocations
        let single = matches!(op.k, OpK::SInsert | OpK::SReplace | OpK::SRemove | OpK::STake | OpK::SGet | OpK::SContains | OpK::SGetOrInsert | OpK::SGetOrInsertOwned | OpK::SGetOrInsertWith);
        let pre = if self.cfg.flags.c02 && single && !T::ZST { Some((self.r.contains_key(&T::norm(op.key)), self.r.len(), self.s.verif_stats(), crate::hasher::counts()[0], alloc::allocs())) } else { None };
        let res = catch(|| self.do_op(op));
        let obs = match res {
            Ok(Ok(o)) => o,
            Ok(Err(v)) => return Err(v),
            Err(msg) => return Err(Viol::new("panic", msg)),
        };
        if let Some(f) = elem::ledger_fault() {
            vbail!("ledger", "{}", f);
        }
        if let Some((present, len0, s0, h0, a0)) = pre {
            let s1 = self.s.verif_stats();
            let hashes = crate::hasher::counts()[0] - h0;
            let allocs = alloc::allocs() - a0;
            let (old0, old1) = (s0.old.map_or(0, |o| o.0), s1.old.map_or(0, |o| o.0));
            let grew = s0.old.is_none() && allocs >= 1;
            let moved = if grew { s1.main_len.saturating_sub(1) } else { old0.saturating_sub(old1) };
            let adds = self.r.len() > len0;
            let removes = self.r.len() < len0;
            let r = griddle::verif::R;
            // `insert` of an element that is already there is the map's overwriting insert (it may move a batch
            // when the element still sits in the old table); every other call on a present element, every lookup
            // and every removal is an in-place update / lookup / removal
            let may_move = adds || (op.k == OpK::SInsert && present);
            if may_move {
                if moved > r || hashes as usize > r + 2 || allocs > 1 {
                    vbail!("monitor", "{} moved {} elements, computed {} hashes, made {} table allocations (bounds: R = {}, R + 2, 1)", op, moved, hashes, allocs, r);
                }
            } else {
                let moved = moved.saturating_sub(removes as usize);
                if moved > 0 || hashes > 2 || allocs > 0 {
                    vbail!("monitor", "{} (a lookup / removal / in-place update) moved {} elements, computed {} hashes, made {} allocations", op, moved, hashes, allocs);
                }
            }
        }
        Ok(obs)
    }

    fn pred_set(&self, key: u32, code: u64) -> BTreeSet<u32> {
        let all: Vec<u32> = self.ids();
        match code & 0xFFFF {
            0 => BTreeSet::new(),
            1 => all.into_iter().collect(),
            2 | 3 => {
                let d = self.dump();
                let old: BTreeSet<u32> = Self::old_ids(&d).into_iter().collect();
                if code & 0xFFFF == 2 {
                    old
                } else {
                    all.into_iter().filter(|k| !old.contains(k)).collect()
                }
            }
            4 => all.into_iter().filter(|k| k % 2 == 0).collect(),
            5 => all.into_iter().filter(|k| k % 3 == 0).collect(),
            10 => {
                let d = self.dump();
                let old = Self::old_ids(&d);
                let last = self.classes().old_last;
                all.into_iter().filter(|k| !old.contains(k) || Some(*k) == last).collect()
            }
            6 => all.into_iter().filter(|&q| q == T::norm(key)).collect(),
            _ => all.into_iter().filter(|&q| q != T::norm(key)).collect(),
        }
    }

    fn do_op(&mut self, op: Op) -> VResult<u64> {
        let k = op.key;
        let lk = T::norm(k);
        let mut obs = H128::new();
        obs.u64(op.k as u64);
        match op.k {
            OpK::SInsert => {
                let kk = T::mk(k, true);
                let o = kk.obj();
                let g = window(|| self.s.insert(kk));
                vcheck_eq!("insert", g, !self.r.contains_key(&lk));
                if g {
                    self.r.insert(lk, o);
                }
                self.note_key(k);
                obs.u64(g as u64);
            }
            OpK::SReplace => {
                let kk = T::mk(k, true);
                let o = kk.obj();
                let g = window(|| self.s.replace(kk)).map(|x| (x.id(), x.obj()));
                vcheck_eq!("replace", g, self.r.insert(lk, o).map(|old| (lk, old)));
                self.note_key(k);
                obs.u64(g.is_some() as u64);
            }
            OpK::SRemove => {
                let kk = T::mk(k, true);
                let g = window(|| self.s.remove(&kk));
                vcheck_eq!("remove", g, self.r.remove(&lk).is_some());
                obs.u64(g as u64);
            }
            OpK::STake => {
                let kk = T::mk(k, true);
                let g = window(|| self.s.take(&kk)).map(|x| (x.id(), x.obj()));
                vcheck_eq!("take", g, self.r.remove(&lk).map(|o| (lk, o)));
                obs.u64(g.is_some() as u64);
            }
            OpK::SGet => {
                let kk = T::mk(k, true);
                let g = self.s.get(&kk).map(|x| (x.id(), x.obj()));
                vcheck_eq!("get", g, self.r.get(&lk).map(|&o| (lk, o)));
                obs.u64(g.is_some() as u64);
            }
            OpK::SContains => {
                let kk = T::mk(k, true);
                let g = self.s.contains(&kk);
                vcheck_eq!("contains", g, self.r.contains_key(&lk));
                obs.u64(g as u64);
            }
            OpK::SGetOrInsert => {
                let kk = T::mk(k, true);
                let o = kk.obj();
                let g = window(|| {
                    let x = self.s.get_or_insert(kk);
                    (x.id(), x.obj())
                });
                let want = *self.r.entry(lk).or_insert(o);
                vcheck_eq!("get_or_insert", g, (lk, want));
                self.note_key(k);
            }
            OpK::SGetOrInsertOwned => {
                let kk = T::mk(k, true);
                let present = self.r.contains_key(&lk);
                let g = window(|| {
                    let x = self.s.get_or_insert_owned(&kk);
                    (x.id(), x.obj())
                });
                if present {
                    vcheck_eq!("get_or_insert_owned", g, (lk, self.r[&lk]));
                } else {
                    // a clone of the probe was stored
                    vcheck_eq!("get_or_insert_owned id", g.0, lk);
                    if T::TRACKED && g.1 == kk.obj() {
                        vbail!("mismatch", "get_or_insert_owned stored the borrowed probe itself");
                    }
                    self.r.insert(lk, g.1);
                }
                self.note_key(k);
            }
            OpK::SGetOrInsertWith => {
                let kk = T::mk(k, true);
                let present = self.r.contains_key(&lk);
                let mut called = false;
                let mut made = 0u64;
                // arg 1: the closure builds a value that is NOT equal to the looked-up one (the smallest
                // absent id other than k): that value is what the set must then hold, findable as itself
                let alt: u32 = if op.arg == 1 && !T::ZST { (0..self.next_key).find(|a| *a != k && !self.r.contains_key(a)).unwrap_or(k) } else { k };
                let g = window(|| {
                    let x = self.s.get_or_insert_with(&kk, |q| {
                        called = true;
                        tick(Cb::Closure);
                        let n = harness(|| T::mk(if alt != k { alt } else { q.id() }, true));
                        made = n.obj();
                        n
                    });
                    (x.id(), x.obj())
                });
                vcheck_eq!("get_or_insert_with closure called", called, !present);
                if present {
                    vcheck_eq!("get_or_insert_with", g, (lk, self.r[&lk]));
                } else {
                    let la = T::norm(alt);
                    vcheck_eq!("get_or_insert_with", g, (la, made));
                    self.r.insert(la, made);
                }
                self.note_key(k);
            }
            OpK::Retain => {
                let keep = self.pred_set(k, op.arg);
                let mut log: Vec<u32> = Vec::with_capacity(self.r.len() + 1);
                window(|| {
                    self.s.retain(|x| {
                        tick(Cb::Closure);
                        let a = x.id();
                        harness(|| log.push(a));
                        keep.contains(&a)
                    })
                });
                log.sort();
                if log != self.ids() {
                    vbail!("mismatch", "retain called its predicate on {:?}, elements were {:?}", log, self.ids());
                }
                self.r.retain(|a, _| keep.contains(a));
            }
            OpK::DrainFilter => {
                let (code, mode, prefix) = iter_arg_split(op.arg);
                let take = self.pred_set(k, code);
                let before = self.ids();
                let mut log: Vec<u32> = Vec::with_capacity(before.len() + 1);
                let mut yielded: Vec<u32> = Vec::with_capacity(before.len() + 4);
                let mut counted: Option<usize> = None;
                window(|| {
                    let mut it = self.s.drain_filter(|x| {
                        tick(Cb::Closure);
                        let a = x.id();
                        harness(|| log.push(a));
                        take.contains(&a)
                    });
                    let limit = iter_limit(mode, prefix);
                    let mut n = 0;
                    while n < limit {
                        match it.next() {
                            Some(x) => {
                                harness(|| {
                                    yielded.push(x.id());
                                    drop(x);
                                });
                                n += 1;
                            }
                            None => break,
                        }
                    }
                    counted = finish_iter(it, mode, prefix, &mut |x| {
                        harness(|| {
                            yielded.push(x.id());
                            drop(x);
                        })
                    });
                });
                log.sort();
                for w in log.windows(2) {
                    if w[0] == w[1] {
                        vbail!("mismatch", "drain_filter called its predicate twice on {}", w[0]);
                    }
                }
                if mode != MODE_FORGET_AT && log != before {
                    vbail!("mismatch", "drain_filter called its predicate on {:?}, elements were {:?}", log, before);
                }
                yielded.sort();
                for w in yielded.windows(2) {
                    if w[0] == w[1] {
                        vbail!("mismatch", "drain_filter yielded {} twice", w[0]);
                    }
                }
                for e in &yielded {
                    if !take.contains(e) || !self.r.contains_key(e) {
                        vbail!("mismatch", "drain_filter yielded {}, which does not match / is not an element", e);
                    }
                }
                if mode == MODE_FORGET_AT {
                    for e in &yielded {
                        self.r.remove(e);
                    }
                } else {
                    let want: Vec<u32> = before.iter().copied().filter(|e| take.contains(e)).collect();
                    if iter_complete(mode) && yielded != want {
                        vbail!("mismatch", "drain_filter yielded {:?}, matching elements were {:?}", yielded, want);
                    }
                    iter_post("drain_filter", mode, prefix, want.len(), yielded.len(), counted)?;
                    self.r.retain(|a, _| !take.contains(a));
                }
            }
            OpK::Drain | OpK::IntoIter => {
                let (_, mode, prefix) = iter_arg_split(op.arg);
                let before = self.ids();
                let n0 = before.len();
                let limit = iter_limit(mode, prefix);
                let mut yielded: Vec<u32> = Vec::with_capacity(n0 + 4);
                let mut counted: Option<usize> = None;
                let mut bad: Option<String> = None;
                macro_rules! consume {
                    ($it:expr) => {{
                        let mut it = $it;
                        let mut n = 0;
                        while n < limit {
                            let (lo, hi) = it.size_hint();
                            if (lo != n0 - n || hi != Some(n0 - n) || it.len() != n0 - n) && bad.is_none() {
                                bad = Some(harness(|| format!("{} size_hint {:?} len {} after {} of {}", op.k.name(), (lo, hi), it.len(), n, n0)));
                            }
                            match it.next() {
                                Some(x) => {
                                    harness(|| {
                                        yielded.push(x.id());
                                        drop(x);
                                    });
                                    n += 1;
                                }
                                None => break,
                            }
                        }
                        if mode == MODE_CONSUME {
                            for _ in 0..3 {
                                if it.next().is_some() {
                                    harness(|| yielded.push(u32::MAX));
                                }
                            }
                        }
                        counted = finish_iter(it, mode, prefix, &mut |x| {
                            harness(|| {
                                yielded.push(x.id());
                                drop(x);
                            })
                        });
                    }};
                }
                if op.k == OpK::Drain {
                    window(|| consume!(self.s.drain()));
                } else {
                    let (hk, seed) = (self.cfg.hk, self.cfg.seed);
                    let fresh = window(|| S::<T>::with_hasher(HB::new(hk, seed)));
                    let old = std::mem::replace(&mut self.s, fresh);
                    window(|| consume!(old.into_iter()));
                }
                if let Some(b) = bad {
                    vbail!("mismatch", "{}", b);
                }
                yielded.sort();
                for w in yielded.windows(2) {
                    if w[0] == w[1] {
                        vbail!("mismatch", "{} yielded {} twice", op.k.name(), w[0]);
                    }
                }
                for e in &yielded {
                    if !self.r.contains_key(e) {
                        vbail!("mismatch", "{} yielded {}; not an element", op.k.name(), e);
                    }
                }
                if iter_complete(mode) && yielded != before {
                    vbail!("mismatch", "{} yielded {:?}, elements were {:?}", op.k.name(), yielded, before);
                }
                iter_post(op.k.name(), mode, prefix, n0, yielded.len(), counted)?;
                if mode == MODE_FORGET_AT {
                    self.leaky = true;
                }
                self.r.clear();
            }
            OpK::ExtendFresh | OpK::ExtendOverlap => {
                let n = op.arg as u32;
                let start = if op.k == OpK::ExtendFresh { self.next_key } else { k };
                let mut ids: Vec<u32> = (start..start + n).collect();
                if op.k == OpK::ExtendOverlap && n > 0 {
                    ids.push(start); // a duplicate inside the iterator
                }
                let elems: Vec<T> = ids.iter().map(|&a| T::mk(a, true)).collect();
                let objs: Vec<u64> = elems.iter().map(|e| e.obj()).collect();
                if op.k == OpK::ExtendOverlap && n % 2 == 1 {
                    window(|| self.s.extend(elems.into_iter().filter(|_| true)));
                } else {
                    window(|| self.s.extend(elems));
                }
                for (&a, &o) in ids.iter().zip(&objs) {
                    self.r.entry(T::norm(a)).or_insert(o);
                    self.note_key(a);
                }
            }
            OpK::ExtendRef => {
                let n = (op.arg & 0xFF) as u32;
                elem::EXT_VARIANT.with(|c| c.set((op.arg >> 8) as u8));
                let ids: Vec<u32> = (k..k + n).collect();
                if T::set_extend_ref(&mut self.s, &ids) {
                    for &a in &ids {
                        self.r.entry(a).or_insert(0);
                        self.note_key(a);
                    }
                }
            }
            OpK::FromIter => {
                let elems: Vec<T> = self.ids().iter().map(|&a| T::mk(a, true)).collect();
                let objs: Vec<u64> = elems.iter().map(|e| e.obj()).collect();
                let s2 = window(|| elems.into_iter().collect::<S<T>>());
                let old = std::mem::replace(&mut self.s, s2);
                drop(old);
                for (v, o) in self.r.values_mut().zip(objs) {
                    *v = o;
                }
            }
            OpK::Clear => {
                window(|| self.s.clear());
                self.r.clear();
            }
            OpK::Reserve => {
                let n = op.arg as usize;
                window(|| self.s.reserve(n));
                if self.s.capacity() < self.s.len() + n {
                    vbail!("contract", "reserve({}) leaves capacity {} < len {} + n", n, self.s.capacity(), self.s.len());
                }
            }
            OpK::TryReserve => {
                let n = op.arg as usize;
                let r = window(|| self.s.try_reserve(n));
                if r.is_ok() && self.s.len().checked_add(n).map_or(true, |t| self.s.capacity() < t) {
                    vbail!("contract", "try_reserve({}) returned Ok with capacity {} len {}", n, self.s.capacity(), self.s.len());
                }
            }
            OpK::ShrinkTo => window(|| self.s.shrink_to(op.arg as usize)),
            OpK::ShrinkToFit => window(|| self.s.shrink_to_fit()),
            OpK::CloneReplace => {
                let s2 = window(|| self.s.clone());
                let old = std::mem::replace(&mut self.s, s2);
                drop(old);
                let map: BTreeMap<u32, u64> = self.s.iter().map(|x| (x.id(), x.obj())).collect();
                if map.keys().copied().collect::<Vec<_>>() != self.ids() {
                    vbail!("mismatch", "clone holds {:?}, source held {:?}", map.keys().collect::<Vec<_>>(), self.ids());
                }
                self.r = map;
            }
            OpK::CloneFromInto => {
                let (hk, seed) = (self.cfg.hk, self.cfg.seed);
                let mut d = window(|| S::<T>::with_hasher(HB::new(hk, seed.wrapping_add(77))));
                let nd = [0u32, 3, 15, 40][(op.arg & 3) as usize];
                for q in 0..nd {
                    let e = T::mk(1000 + q, true);
                    window(|| d.insert(e));
                }
                let src = &self.s;
                window(|| d.clone_from(src));
                let old = std::mem::replace(&mut self.s, d);
                drop(old);
                let map: BTreeMap<u32, u64> = self.s.iter().map(|x| (x.id(), x.obj())).collect();
                if map.keys().copied().collect::<Vec<_>>() != self.ids() {
                    vbail!("mismatch", "clone_from destination holds {:?}, source held {:?}", map.keys().collect::<Vec<_>>(), self.ids());
                }
                self.r = map;
            }
            OpK::IterCheck => {
                let n = self.r.len();
                let want = self.ids();
                let mut got = walk(self.s.iter().map(|x| x.id()), n, "set.iter")?;
                got.sort();
                if got != want {
                    vbail!("mismatch", "set.iter yields {:?}, elements are {:?}", got, want);
                }
                let mut got = walk((&self.s).into_iter().map(|x| x.id()), n, "&set.into_iter")?;
                got.sort();
                if got != want {
                    vbail!("mismatch", "&set into_iter yields {:?}, elements are {:?}", got, want);
                }
                let want2: Vec<(u32, u32)> = want.iter().map(|&a| (a, 0)).collect();
                crate::provided!(self.s.iter(), |x: &T| (x.id(), 0), &want2, "set.iter");
                crate::provided!((&self.s).into_iter(), |x: &T| (x.id(), 0), &want2, "&set.into_iter");
                let ps: Vec<usize> = if n <= 40 { (0..=n).collect() } else { vec![0, n / 2, n] };
                for p in ps {
                    let mut it = self.s.iter();
                    for _ in 0..p {
                        it.next();
                    }
                    let c = it.clone();
                    let a = walk(c.map(|x| x.id()), n - p, "set.iter.clone()")?;
                    let b = walk(it.map(|x| x.id()), n - p, "set.iter after clone")?;
                    if a != b {
                        vbail!("mismatch", "cloned set iter at {} yields {:?}, original {:?}", p, a, b);
                    }
                }
            }
            OpK::BorrowProbe => {
                let ids = self.ids();
                let n = crate::borrowcheck::set_probe(&ids, self.cfg.hk, self.cfg.seed)?;
                obs.u64(n);
            }
            _ => vbail!("machinery", "op {} is not a set op", op),
        }
        obs.u64(self.s.len() as u64);
        Ok(obs.finish64())
    }

    pub fn finish(self) -> VResult<()> {
        let leaky = self.leaky;
        let SetWorld { s, r, .. } = self;
        drop(r);
        catch(|| drop(s)).map_err(|e| Viol::new("panic", format!("dropping the set: {}", e)))?;
        if let Some(f) = elem::ledger_fault() {
            vbail!("ledger", "{}", f);
        }
        if !leaky {
            if elem::ledger_live() != 0 {
                vbail!("ledger", "{} element objects leaked", elem::ledger_live());
            }
            if alloc::live_tables() != 0 {
                vbail!("ledger", "{} table allocations leaked ({} bytes)", alloc::live_tables(), alloc::live_bytes());
            }
        }
        Ok(())
    }
}

impl<T: El> crate::engine::World for SetWorld<T> {
    fn create(cfg: &Cfg) -> VResult<Self> {
        SetWorld::create(cfg)
    }
    fn apply(&mut self, op: Op) -> VResult<u64> {
        SetWorld::apply(self, op)
    }
    fn audit(&mut self, full: bool) -> VResult<()> {
        SetWorld::audit(self, full)
    }
    fn key128(&self) -> u128 {
        SetWorld::key128(self)
    }
    fn len(&self) -> usize {
        self.r.len()
    }
    fn next_key(&self) -> u32 {
        self.next_key
    }
    fn classes(&self) -> Classes {
        SetWorld::classes(self)
    }
    fn phase(&self) -> u8 {
        match self.s.verif_stats().old {
            None => 0,
            Some((0, _, _)) => 3,
            Some((l, b, _)) if (l + 8) * 8 >= b * 7 => 1,
            Some(_) => 2,
        }
    }
    fn obs_state(&self) -> u64 {
        SetWorld::obs_state(self)
    }
    fn default_op(&self) -> Op {
        Op::key(OpK::SInsert, if T::ZST { 0 } else { self.next_key })
    }
    fn finish(self) -> VResult<()> {
        SetWorld::finish(self)
    }
    fn discard(self) -> bool {
        let l = self.leaky;
        drop(self);
        l
    }
    fn present(&self) -> Vec<u32> {
        self.ids()
    }
    fn capacity(&self) -> usize {
        self.s.capacity()
    }
}
