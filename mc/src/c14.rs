//! C14: observable behaviour depends only on contents.  For each target content set the cross
//! product of history shapes gives a class of physically different, logically equal collections;
//! all ordered pairs are compared through the read-only API, plus single-element negatives.

use crate::elem::El;
use crate::engine::{reset_exec, CurFile, FoundViol, Outcome, World, PROGRESS};
use crate::hasher::{H_CONST, H_GOOD, H_LOW, H_TAG};
use crate::mapworld::{Cfg, MapWorld};
use crate::op::*;
use crate::setworld::SetWorld;
use crate::shard::ShardSpec;
use crate::util::{catch, H128};
use std::collections::HashSet;

#[derive(Clone)]
pub struct Member {
    pub cfg: Cfg,
    pub hist: Vec<Op>,
    pub desc: String,
}

fn gcd(a: usize, b: usize) -> usize {
    if b == 0 {
        a
    } else {
        gcd(b, a % b)
    }
}

/// Histories that all end with keys 0..n (map: value 1 for odd keys, 0 for even ones).
pub fn members(n: usize, set: bool, rich: bool, base: &Cfg) -> Vec<Member> {
    let ins = if set { OpK::SInsert } else { OpK::Insert };
    let rem = if set { OpK::SRemove } else { OpK::Remove };
    let mut orders: Vec<(String, Vec<u32>)> = vec![("identity".into(), (0..n as u32).collect()), ("reverse".into(), (0..n as u32).rev().collect())];
    if n >= 3 {
        orders.push(("rotate".into(), (0..n).map(|i| ((i + n / 3) % n) as u32).collect()));
    }
    if rich {
        for st in [3usize, 7] {
            if n > st && gcd(n, st) == 1 {
                orders.push((format!("stride{}", st), (0..n).map(|i| ((i * st) % n) as u32).collect()));
            }
        }
    }
    let caps: Vec<usize> = if rich { vec![0, n, 4 * n + 3] } else { vec![0, 2 * n + 1] };
    let tombs: Vec<usize> = if n == 0 { vec![0] } else { vec![0, (n / 2).max(1)] };
    let splices: Vec<&str> = if rich { vec!["none", "reserve-mid", "shrink-3q", "reserve-end", "shrink-end"] } else { vec!["none", "reserve-mid", "shrink-end"] };
    let hashers: Vec<(u8, u64)> = if rich { vec![(H_GOOD, 1), (H_GOOD, 2), (H_LOW, 1), (H_CONST, 1), (H_TAG, 1)] } else { vec![(H_GOOD, 1), (H_GOOD, 2), (H_LOW, 1)] };
    let mut out = vec![];
    for (oname, order) in &orders {
        for &cap0 in &caps {
            for &t in &tombs {
                for &sp in &splices {
                    for &(hk, seed) in &hashers {
                        let mut h: Vec<Op> = vec![];
                        for q in 0..t as u32 {
                            h.push(Op::key(ins, 5000 + q));
                        }
                        for (i, &k) in order.iter().enumerate() {
                            if sp == "reserve-mid" && i == n / 2 {
                                h.push(Op::arg(OpK::Reserve, (i + t) as u64));
                            }
                            if sp == "shrink-3q" && i == 3 * n / 4 {
                                h.push(Op::k(OpK::ShrinkToFit));
                            }
                            h.push(Op::key(ins, k));
                        }
                        for q in 0..t as u32 {
                            h.push(Op::key(rem, 5000 + q));
                        }
                        if sp == "reserve-end" {
                            h.push(Op::arg(OpK::Reserve, (n + 1) as u64));
                        }
                        if sp == "shrink-end" {
                            h.push(Op::k(OpK::ShrinkToFit));
                        }
                        if !set {
                            for k in (1..n as u32).step_by(2) {
                                h.push(Op::key(OpK::GetMut, k));
                            }
                        }
                        let mut cfg = base.clone();
                        cfg.hk = hk;
                        cfg.seed = seed;
                        cfg.cap0 = cap0;
                        out.push(Member { cfg, hist: h, desc: format!("order={} cap0={} tombstones={} splice={} hasher={}/{}", oname, cap0, t, sp, crate::hasher::H_NAMES[hk as usize], seed) });
                    }
                }
            }
        }
    }
    out
}

const CFG_KEY: u32 = u32::MAX - 1;
const NEG_FLAG: u64 = 1 << 40;
fn cfg_op(c: &Cfg) -> Op {
    Op::new(OpK::Clear, CFG_KEY, c.hk as u64 | (c.seed & 0xFFFF) << 8 | (c.cap0 as u64) << 24)
}
fn cfg_from(base: &Cfg, o: Op) -> Cfg {
    let mut c = base.clone();
    c.hk = (o.arg & 0xFF) as u8;
    c.seed = (o.arg >> 8) & 0xFFFF;
    c.cap0 = (o.arg >> 24) as usize;
    c
}
/// A recorded member history starts with its configuration pseudo-op.
fn recorded(m: &Member, extra: &[Op]) -> Vec<Op> {
    let mut h = vec![cfg_op(&m.cfg)];
    h.extend(m.hist.iter().copied());
    h.extend(extra.iter().copied());
    h
}
fn build_recorded<W: World>(base: &Cfg, h: &[Op]) -> VResult<W> {
    let (cfg, rest) = match h.first() {
        Some(o) if o.k == OpK::Clear && o.key == CFG_KEY => (cfg_from(base, *o), &h[1..]),
        _ => (base.clone(), h),
    };
    build::<W>(&Member { cfg, hist: rest.to_vec(), desc: String::new() }, &[])
}

fn build<W: World>(m: &Member, extra: &[Op]) -> VResult<W> {
    let mut w = W::create(&m.cfg)?;
    for &o in m.hist.iter().chain(extra.iter()) {
        if let Err(v) = w.apply(o) {
            std::mem::forget(w);
            return Err(v);
        }
    }
    w.audit(true)?;
    Ok(w)
}

/// What the read-only API shows, as a canonical string (multisets sorted).
trait Observable: World {
    fn summary(&self, probe_to: u32) -> String;
    fn equals(&self, other: &Self) -> bool;
    /// `==` with values that are only `PartialEq`: a map holding a NaN differs from itself and from
    /// its clone (as for std's map), so no identity shortcut may answer `true`.
    fn partial_eq_check(&self) -> Option<String> {
        None
    }
}
fn sorted_debug(s: String) -> Vec<String> {
    let inner = s.trim_start_matches('{').trim_end_matches('}');
    let mut v: Vec<String> = inner.split(", ").filter(|x| !x.is_empty()).map(|x| x.to_string()).collect();
    v.sort();
    v
}
impl<T: El> Observable for MapWorld<T> {
    fn summary(&self, probe_to: u32) -> String {
        let m = &self.m;
        let mut it: Vec<(u32, u32)> = m.iter().map(|(k, v)| (k.id(), v.id())).collect();
        it.sort();
        let mut ks: Vec<u32> = m.keys().map(|k| k.id()).collect();
        ks.sort();
        let mut vs: Vec<u32> = m.values().map(|v| v.id()).collect();
        vs.sort();
        let gets: Vec<Option<u32>> = (0..probe_to).map(|k| m.get(&T::mk(k, true)).map(|v| v.id())).collect();
        let cont: Vec<bool> = (0..probe_to).map(|k| m.contains_key(&T::mk(k, true))).collect();
        format!("len={} empty={} iter={:?} keys={:?} values={:?} get={:?} contains={:?} debug={:?}", m.len(), m.is_empty(), it, ks, vs, gets, cont, sorted_debug(format!("{:?}", m)))
    }
    fn equals(&self, other: &Self) -> bool {
        self.m == other.m
    }
    fn partial_eq_check(&self) -> Option<String> {
        let hb = crate::hasher::HB::new(self.cfg.hk, self.cfg.seed);
        let mut plain: griddle::HashMap<u32, f64, crate::hasher::HB> = griddle::HashMap::with_hasher(hb.clone());
        let mut nan = griddle::HashMap::with_hasher(hb);
        // same insertion pattern as the member: keys in the order the map iterates them
        let ks: Vec<(u32, u32)> = self.m.iter().map(|(k, v)| (k.id(), v.id())).collect();
        for (i, &(k, v)) in ks.iter().enumerate() {
            plain.insert(k, v as f64);
            nan.insert(k, if i == ks.len() / 2 { f64::NAN } else { v as f64 });
        }
        let (pc, nc) = (plain.clone(), nan.clone());
        #[allow(clippy::eq_op)]
        let (a, b, c, d, e) = (plain == plain, plain == pc, nan == nan, nan == nc, plain == nan);
        if !a || !b {
            return Some(format!("f64-valued map without NaN: m == m is {}, m == clone is {}", a, b));
        }
        if !ks.is_empty() && (c || d || e) {
            return Some(format!("f64-valued map holding a NaN: m == m is {}, m == clone is {}, plain == nan is {} (all must be false)", c, d, e));
        }
        // the same with a zero-sized value type whose PartialEq is never true: its values are compared too
        #[derive(Clone)]
        struct Never;
        impl PartialEq for Never {
            fn eq(&self, _: &Never) -> bool {
                false
            }
        }
        let mut z: griddle::HashMap<u32, Never, crate::hasher::HB> = griddle::HashMap::with_hasher(crate::hasher::HB::new(self.cfg.hk, self.cfg.seed));
        for &(k, _) in &ks {
            z.insert(k, Never);
        }
        let zc = z.clone();
        #[allow(clippy::eq_op)]
        let (f, g) = (z == z, z == zc);
        if !ks.is_empty() && (f || g) {
            return Some(format!("map with zero-sized, never-equal values: m == m is {}, m == clone is {} (both must be false)", f, g));
        }
        if ks.is_empty() && !(f && g) {
            return Some("two empty maps with zero-sized values compare unequal".to_string());
        }
        None
    }
}
impl<T: El> Observable for SetWorld<T> {
    fn summary(&self, probe_to: u32) -> String {
        let s = &self.s;
        let mut it: Vec<u32> = s.iter().map(|k| k.id()).collect();
        it.sort();
        let gets: Vec<Option<u32>> = (0..probe_to).map(|k| s.get(&T::mk(k, true)).map(|v| v.id())).collect();
        let cont: Vec<bool> = (0..probe_to).map(|k| s.contains(&T::mk(k, true))).collect();
        format!("len={} empty={} iter={:?} get={:?} contains={:?} debug={:?}", s.len(), s.is_empty(), it, gets, cont, sorted_debug(format!("{:?}", s)))
    }
    fn equals(&self, other: &Self) -> bool {
        self.s == other.s
    }
}

fn run<W: Observable>(spec: &ShardSpec, cur: Option<&str>, set: bool) -> Outcome {
    let t0 = std::time::Instant::now();
    let mut out = Outcome::default();
    let mut curf = CurFile::new(cur);
    let rich = spec.extra.get("rich").map_or(false, |s| s == "1");
    let part: usize = spec.extra.get("part").and_then(|s| s.parse().ok()).unwrap_or(0);
    let parts: usize = spec.extra.get("parts").and_then(|s| s.parse().ok()).unwrap_or(1);
    let base = spec.cfg();
    let mut sigs: HashSet<String> = HashSet::new();
    let mut obs_seen: HashSet<u64> = HashSet::new();
    let mut fail = |out: &mut Outcome, kind: &str, msg: String, hist: Vec<Op>| {
        out.viol_count += 1;
        let sig = crate::engine::sig_of(kind, &msg, None);
        if sigs.insert(sig) && out.violations.len() < 12 {
            out.violations.push(FoundViol { kind: kind.into(), msg, history: hist, step: 0 });
        }
    };
    let mut class_sizes = vec![];
    for n in 0..=spec.n {
        if n % parts != part {
            continue;
        }
        if t0.elapsed().as_secs_f64() > spec.max_secs {
            out.capped = Some(format!("time cap {}s at n={}", spec.max_secs, n));
            break;
        }
        reset_exec();
        let ms = members(n, set, rich, &base);
        // build every member, keep one per physical layout
        let mut worlds: Vec<(usize, W)> = vec![];
        let mut seen: HashSet<u128> = HashSet::new();
        for (i, m) in ms.iter().enumerate() {
            curf.put(&m.hist, None);
            PROGRESS.fetch_add(1, std::sync::atomic::Ordering::Relaxed);
            out.executions += 1;
            out.steps += m.hist.len() as u64;
            match catch(|| build::<W>(m, &[])) {
                Ok(Ok(w)) => {
                    if seen.insert(w.key128()) {
                        out.states += 1;
                        out.phases[w.phase() as usize & 3] += 1;
                        worlds.push((i, w));
                    } else {
                        drop(w);
                    }
                }
                Ok(Err(v)) => fail(&mut out, &v.kind, v.msg, recorded(m, &[])),
                Err(p) => fail(&mut out, "panic", p, recorded(m, &[])),
            }
        }
        class_sizes.push(worlds.len());
        let probe = n as u32 + 2;
        let sums: Vec<String> = worlds.iter().map(|(_, w)| w.summary(probe)).collect();
        for s in &sums {
            let mut h = H128::new();
            h.str(s);
            obs_seen.insert(h.finish64());
        }
        // positives: every ordered pair (reflexive pairs included)
        for a in 0..worlds.len() {
            for b in 0..worlds.len() {
                out.transitions += 1;
                let eq = catch(|| worlds[a].1.equals(&worlds[b].1));
                let why = match eq {
                    Ok(true) if sums[a] == sums[b] => continue,
                    Ok(true) => format!("read-only API differs: {} vs {}", sums[a], sums[b]),
                    Ok(false) => "== is false".to_string(),
                    Err(p) => format!("== panicked: {}", p),
                };
                let (ia, ib) = (worlds[a].0, worlds[b].0);
                let mut hist = recorded(&ms[ia], &[]);
                hist.push(Op::new(OpK::Clear, u32::MAX, n as u64));
                hist.extend(recorded(&ms[ib], &[]));
                let why: String = why.chars().take(160).collect();
                fail(&mut out, "mismatch", format!("two collections holding the same {} elements are distinguishable ({})", n, why), hist);
            }
        }
        for (i, w) in worlds.iter() {
            if let Some(why) = w.partial_eq_check() {
                fail(&mut out, "mismatch", why, recorded(&ms[*i], &[]));
            }
        }
        // transitivity on explicit triples (first 12 members)
        let t = worlds.len().min(12);
        for a in 0..t {
            for b in 0..t {
                for c in 0..t {
                    out.transitions += 1;
                    if worlds[a].1.equals(&worlds[b].1) && worlds[b].1.equals(&worlds[c].1) && !worlds[a].1.equals(&worlds[c].1) {
                        fail(&mut out, "mismatch", format!("== is not transitive on members {} {} {} (n={})", a, b, c, n), recorded(&ms[worlds[a].0], &[]));
                    }
                }
            }
        }
        // negatives: single-element mutations of a few members against the whole class
        if n > 0 {
            let cl = worlds.iter().map(|(_, w)| w.classes()).collect::<Vec<_>>();
            let pick = |i: usize| -> Vec<Vec<Op>> {
                let c = &cl[i];
                let mut muts: Vec<Vec<Op>> = vec![];
                let ks: Vec<u32> = [c.old_next, c.old_last, c.main_a, c.main_b, Some(0), Some(n as u32 - 1)].into_iter().flatten().collect();
                for k in ks {
                    if set {
                        muts.push(vec![Op::key(OpK::SRemove, k)]);
                        muts.push(vec![Op::key(OpK::SRemove, k), Op::key(OpK::SInsert, n as u32 + 7)]);
                    } else {
                        muts.push(vec![Op::key(OpK::GetMut, k)]); // one value changed
                        muts.push(vec![Op::key(OpK::Remove, k)]); // one element dropped
                        muts.push(vec![Op::key(OpK::Remove, k), Op::key(OpK::Insert, n as u32 + 7)]); // one key swapped
                    }
                }
                muts.push(vec![Op::key(if set { OpK::SInsert } else { OpK::Insert }, n as u32 + 3)]); // one extra
                muts
            };
            let step = (worlds.len() / 6).max(1);
            for i in (0..worlds.len()).step_by(step) {
                for mu in pick(i) {
                    out.executions += 1;
                    let m = &ms[worlds[i].0];
                    let wm = match catch(|| build::<W>(m, &mu)) {
                        Ok(Ok(w)) => w,
                        Ok(Err(v)) => {
                            fail(&mut out, &v.kind, v.msg, recorded(m, &mu));
                            continue;
                        }
                        Err(p) => {
                            fail(&mut out, "panic", p, recorded(m, &mu));
                            continue;
                        }
                    };
                    for j in 0..worlds.len() {
                        out.transitions += 1;
                        if wm.equals(&worlds[j].1) || worlds[j].1.equals(&wm) {
                            let mut h = recorded(m, &mu);
                            h.push(Op::new(OpK::Clear, u32::MAX, n as u64 | NEG_FLAG));
                            h.extend(recorded(&ms[worlds[j].0], &[]));
                            fail(&mut out, "mismatch", "collections that differ in one element compare equal".to_string(), h);
                        }
                    }
                    drop(wm);
                }
            }
        }
        if out.samples.len() < 3 && !ms.is_empty() {
            out.samples.push(ms[ms.len() / 2].hist.clone());
        }
        for (_, w) in worlds {
            w.discard();
        }
        if let Some(f) = crate::elem::ledger_fault() {
            fail(&mut out, "ledger", f, vec![]);
        }
    }
    out.layers.push((class_sizes.iter().sum::<usize>() as u64, class_sizes.iter().copied().max().unwrap_or(0) as u64));
    out.distinct_obs = obs_seen.len() as u64;
    out.wall_s = t0.elapsed().as_secs_f64();
    out
}

pub fn run_c14(spec: &ShardSpec, cur: Option<&str>) -> Outcome {
    use crate::elem::Tk;
    match (spec.world.as_str(), spec.ty.as_str()) {
        ("map", "u32") => run::<MapWorld<u32>>(spec, cur, false),
        ("map", "tk") => run::<MapWorld<Tk>>(spec, cur, false),
        ("set", "u32") => run::<SetWorld<u32>>(spec, cur, true),
        ("set", "tk") => run::<SetWorld<Tk>>(spec, cur, true),
        (w, t) => panic!("no C14 runner for {} {}", w, t),
    }
}

/// Replay: `A ; separator ; B` (positive or negative pair) or a single member history.
pub fn replay_c14(spec: &ShardSpec, hist: &[Op]) -> VResult<()> {
    use crate::elem::Tk;
    fn go<W: Observable>(spec: &ShardSpec, hist: &[Op]) -> VResult<()> {
        reset_exec();
        let base = spec.cfg();
        match hist.iter().position(|o| o.k == OpK::Clear && o.key == u32::MAX) {
            None => {
                let w = build_recorded::<W>(&base, hist)?;
                let pe = w.partial_eq_check();
                w.discard();
                match pe {
                    Some(why) => Err(Viol::new("mismatch", why)),
                    None => Ok(()),
                }
            }
            Some(p) => {
                let n = (hist[p].arg & 0xFFFF_FFFF) as u32;
                let neg = hist[p].arg & NEG_FLAG != 0;
                let a = build_recorded::<W>(&base, &hist[..p])?;
                let b = build_recorded::<W>(&base, &hist[p + 1..])?;
                let (sa, sb) = (a.summary(n + 2), b.summary(n + 2));
                let eq_ab = catch(|| a.equals(&b));
                let eq_ba = catch(|| b.equals(&a));
                a.discard();
                b.discard();
                if neg {
                    if eq_ab == Ok(true) || eq_ba == Ok(true) {
                        return Err(Viol::new("mismatch", "collections that differ in one element compare equal".to_string()));
                    }
                    return Ok(());
                }
                let why = match eq_ab {
                    Ok(true) if sa == sb => return Ok(()),
                    Ok(true) => format!("read-only API differs: {} vs {}", sa, sb),
                    Ok(false) => "== is false".to_string(),
                    Err(p) => format!("== panicked: {}", p),
                };
                let why: String = why.chars().take(160).collect();
                Err(Viol::new("mismatch", format!("two collections holding the same {} elements are distinguishable ({})", n, why)))
            }
        }
    }
    match (spec.world.as_str(), spec.ty.as_str()) {
        ("map", "u32") => go::<MapWorld<u32>>(spec, hist),
        ("map", "tk") => go::<MapWorld<Tk>>(spec, hist),
        ("set", "u32") => go::<SetWorld<u32>>(spec, hist),
        ("set", "tk") => go::<SetWorld<Tk>>(spec, hist),
        (w, t) => Err(Viol::new("machinery", format!("no C14 replay for {} {}", w, t))),
    }
}
