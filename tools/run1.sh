#!/bin/bash
# usage: run1.sh '<json>' [bin]
G=${2:-/verif/target/chk/chk/gmc}
$G one "$1" | python3 -c "
import json,sys
d=json.load(sys.stdin)
for k in ['states','transitions','executions','steps','max_depth','layers','capped','fixpoint','phases','distinct_obs','viol_count','wall_s']: print(k,d[k])
for v in d['violations']: print('VIOL',v['kind'],v['msg'][:400]); print('   ',len(v['history']), [o for o in v['history'] if not ((o.startswith('Insert(') or o.startswith('SInsert(')) and o.endswith(',0)'))], v['history'][-3:]); open('/tmp/lasthist.txt','w').write(';'.join(v['history']))
"
